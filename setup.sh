#!/bin/sh
# Nothing to build: the specification is interpreted by TLC, the harness is plain Python.
# Sanity: the tools the checks need are present and the specification parses.
set -e
cd "$(dirname "$0")"
test -f /opt/veriftools/tla/tla2tools.jar
test -x /venv/bin/python
mkdir -p .work evidence
PYTHONPATH=/repo /venv/bin/python -c "import stdnum, os; assert os.path.realpath(stdnum.__file__).startswith('/repo/')"
echo setup ok
