----------------------------- MODULE Gen_Requests -----------------------------
(* Request sequences for the online check application: query classes x mode.    *)
EXTENDS Naturals, Sequences, TLC
CONSTANTS Classes, MaxLen
VARIABLE h
Init == h = <<>>
Next == Len(h) < MaxLen /\ h' = Append(h, [q |-> RandomElement(Classes), ajax |-> RandomElement({TRUE, FALSE})])
Spec == Init /\ [][Next]_h
Emit == Len(h) < MaxLen \/ PrintT(<<"REQS", h>>)
=============================================================================
