SPECIFICATION SpecR
INVARIANT EmitFull
CHECK_DEADLOCK FALSE
CONSTANTS
  MaxDepth = 2
  Ops = {"ins", "rep", "case", "dup"}
  PosClasses = {"first", "second", "middle", "before_last", "last", "end"}
  CharClasses = {"LF", "TAB", "NEL", "LS", "ZWSP", "NBSP",
                 "L_DASH", "L_DOT", "L_SLASH", "L_COLON", "L_STAR", "L_COMMA", "L_APOS", "L_SPACE", "L_DIGIT",
                 "A_SPACE", "A_HYPHEN", "A_DOT", "A_SLASH", "A_COLON", "A_COMMA", "A_APOS", "A_STAR", "A_PUNCT"}
