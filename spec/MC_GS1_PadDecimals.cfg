SPECIFICATION Spec
CONSTANT PadDecimals = TRUE
INVARIANT RT1
CHECK_DEADLOCK FALSE
