------------------------------ MODULE Gen_NumDB ------------------------------
(* Behaviour generator for C10: random WELL-FORMED registries (nesting up to    *)
(* depth 3, several ranges per entry group, overlapping ranges of different     *)
(* lengths, shared property keys) and query strings.  One registry + a batch    *)
(* of queries per behaviour; emitted as a TLA+ value that the driver turns into *)
(* file text for the real numdb.read().  Entries that share a 'line' id are     *)
(* written as one multi-range line (they share properties and children).        *)
EXTENDS Text, TLC
A == {48, 49, 50}                       \* alphabet '0' '1' '2'
R(S) == RandomElement(S)
RandStr(k) == [i \in 1..k |-> R(A)]
RandRange(k) == LET a == RandStr(k)  b == RandStr(k)
                IN IF LexLeq(a, b) THEN <<a, b>> ELSE <<b, a>>
PropSets == { <<>>, << <<"a", "1">> >>, << <<"a", "2">> >>, << <<"b", "x">> >>, << <<"a", "3">>, <<"b", "y">> >> }

RECURSIVE RandLevel(_, _)
(* a level is a sequence of lines; a line is [ranges, props, kids]              *)
RandLine(depth) ==
  [ranges |-> [i \in 1..R(1..3) |-> RandRange(R(1..3))],
   props |-> R(PropSets),
   kids |-> IF depth >= 3 THEN <<>> ELSE IF R(1..3) = 1 THEN RandLevel(depth + 1, R(1..3)) ELSE <<>>]
RandLevel(depth, n) == [i \in 1..n |-> RandLine(depth)]

VARIABLES reg, queries, step
Init == reg = <<>> /\ queries = <<>> /\ step = 0
Next == /\ step = 0
        /\ reg' = RandLevel(1, R(1..4))
        /\ queries' = [i \in 1..12 |-> RandStr(R(0..6))]
        /\ step' = 1
Spec == Init /\ [][Next]_<<reg, queries, step>>
Emit == step = 0 \/ PrintT(<<"REG", reg, queries>>)
=============================================================================
