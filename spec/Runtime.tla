------------------------------ MODULE Runtime ------------------------------
(* One Python process running python-stdnum: the lazily filled process-wide    *)
(* caches, threads that call the library, the objects handed back to callers.  *)
(*                                                                             *)
(*  numdb.get(n):   GEnter -> GCheck -> (hit: GUse) | (miss: GParse -> GStore   *)
(*                  -> GUse) ; GParse may FAIL (I/O fault) and raise            *)
(*  info(n):        returns the properties of registry n as a dict object,      *)
(*                  a fresh copy -- or (hazard) the registry's own dict         *)
(*  Mutate:         the caller changes a dict it was given                      *)
(*  vat(cc):        eu.vat country dispatch: lower, alias, membership test,     *)
(*                  cache lookup, import, store.  The import is the             *)
(*                  interpreter's: VLoad (module body runs, module in           *)
(*                  sys.modules, no longer initialising) -> VAttach (attribute  *)
(*                  set on the package); a second importer arriving in between  *)
(*                  is handed the module at once and then looks the attribute   *)
(*                  up (VGetattr)                                               *)
(*                                                                             *)
(* The hazard switches describe realistic wrong implementations; with all of    *)
(* them FALSE the model is the code as it is.  PureResults: every value a call  *)
(* returns is a function of its arguments and the files only.                   *)
EXTENDS Naturals, Sequences, FiniteSets, TLC

CONSTANTS Threads, Names, Codes, MaxCalls,
          StoreFirst,       \* hazard: publish the registry object before it is filled
          BaseKey,          \* hazard: cache keyed by the file's base name
          AliasProps,       \* hazard: info() hands out the registry's own dict
          CacheBeforeMember,\* hazard: country cache consulted before the membership test
          NoImportFallback, \* hazard (the code before fix 772c586): get_cc_module() trusts getattr(package, name) alone
          Faults            \* whether opening/parsing a registry may fail

Base(n) == IF n \in {"be/banks", "cz/banks"} THEN "banks" ELSE n
Key(n) == IF BaseKey THEN Base(n) ELSE n
Keys == {Key(n) : n \in Names}
\* @type: Str => Seq(Str);
File(n) == <<"content", n>>

(* ---- eu.vat: what the dispatch must answer (a function of the code only) ---- *)
Members == {"nl", "gr", "xi"}
Alias(cc) == IF cc = "el" THEN "gr" ELSE cc
Target(cc) == IF cc = "xi" THEN "gb" ELSE cc
\* @type: Str => Seq(Str);
VatOf(cc) == IF Alias(cc) \in Members THEN <<"module", Target(Alias(cc))>> ELSE <<"none">>

NoEntry == [present |-> FALSE, owner |-> "none", full |-> FALSE, dirty |-> FALSE]
VARIABLES db,        \* numdb cache: key -> entry
          cc,        \* country cache: code -> "absent" | module
          imp,       \* interpreter: country module -> "absent" | "body_done" | "attached"
          pc, arg, calls, ret, held
vars == <<db, cc, imp, pc, arg, calls, ret, held>>

Init == /\ db = [k \in Keys |-> NoEntry]
        /\ cc = [c \in {Target(Alias(x)) : x \in Codes} \cup Codes |-> "absent"]
        /\ imp = [c \in {Target(Alias(x)) : x \in Codes} \cup Codes |-> "absent"]
        /\ pc = [t \in Threads |-> "idle"] /\ arg = [t \in Threads |-> "none"]
        /\ calls = [t \in Threads |-> 0] /\ ret = [t \in Threads |-> <<"none">>]
        /\ held = [t \in Threads |-> "none"]        \* the registry whose dict the thread holds an alias of

(* ---- numdb.get + info ---- *)
GEnter(t) == /\ pc[t] = "idle" /\ calls[t] < MaxCalls
             /\ \E n \in Names : arg' = [arg EXCEPT ![t] = n]
             /\ pc' = [pc EXCEPT ![t] = "check"] /\ calls' = [calls EXCEPT ![t] = @ + 1]
             /\ UNCHANGED <<imp, db, cc, ret, held>>
GCheck(t) == /\ pc[t] = "check"
             /\ pc' = [pc EXCEPT ![t] = IF db[Key(arg[t])].present THEN "use" ELSE "parse"]
             /\ UNCHANGED <<imp, db, cc, arg, calls, ret, held>>
GParse(t) == /\ pc[t] = "parse" /\ ~StoreFirst
             /\ pc' = [pc EXCEPT ![t] = "store"] /\ UNCHANGED <<imp, db, cc, arg, calls, ret, held>>
GFail(t) == /\ pc[t] \in {"parse", "fill"} /\ Faults
            /\ ret' = [ret EXCEPT ![t] = <<"raise", "IOError">>]
            /\ pc' = [pc EXCEPT ![t] = "done"] /\ UNCHANGED <<imp, db, cc, arg, calls, held>>
GStore(t) == /\ pc[t] = "store"
             /\ db' = [db EXCEPT ![Key(arg[t])] = [present |-> TRUE, owner |-> arg[t], full |-> TRUE, dirty |-> FALSE]]
             /\ pc' = [pc EXCEPT ![t] = "use"] /\ UNCHANGED <<imp, cc, arg, calls, ret, held>>
GStoreEmpty(t) == /\ pc[t] = "parse" /\ StoreFirst
                  /\ db' = [db EXCEPT ![Key(arg[t])] = [present |-> TRUE, owner |-> arg[t], full |-> FALSE, dirty |-> FALSE]]
                  /\ pc' = [pc EXCEPT ![t] = "fill"] /\ UNCHANGED <<imp, cc, arg, calls, ret, held>>
GFill(t) == /\ pc[t] = "fill"
            /\ db' = [db EXCEPT ![Key(arg[t])].full = TRUE]
            /\ pc' = [pc EXCEPT ![t] = "use"] /\ UNCHANGED <<imp, cc, arg, calls, ret, held>>
GUse(t) == /\ pc[t] = "use"
           /\ LET e == db[Key(arg[t])]
              IN /\ ret' = [ret EXCEPT ![t] = IF ~e.full THEN <<"partial", e.owner>>
                                              ELSE IF e.dirty THEN <<"mutated", e.owner>> ELSE File(e.owner)]
                 /\ held' = [held EXCEPT ![t] = IF AliasProps THEN Key(arg[t]) ELSE "none"]
           /\ pc' = [pc EXCEPT ![t] = "done"] /\ UNCHANGED <<imp, db, cc, arg, calls>>
(* the caller changes the dict it was given (always allowed: it is the caller's object) *)
Mutate(t) == /\ pc[t] = "idle" /\ held[t] # "none"
             /\ db' = [db EXCEPT ![held[t]].dirty = TRUE]
             /\ held' = [held EXCEPT ![t] = "none"] /\ UNCHANGED <<imp, cc, pc, arg, calls, ret>>

(* ---- eu.vat country dispatch ---- *)
VEnter(t) == /\ pc[t] = "idle" /\ calls[t] < MaxCalls
             /\ \E c \in Codes : arg' = [arg EXCEPT ![t] = c]
             /\ pc' = [pc EXCEPT ![t] = IF CacheBeforeMember THEN "vcache" ELSE "vmember"]
             /\ calls' = [calls EXCEPT ![t] = @ + 1] /\ UNCHANGED <<imp, db, cc, ret, held>>
VMember(t) == /\ pc[t] = "vmember"
              /\ IF Alias(arg[t]) \in Members
                 THEN pc' = [pc EXCEPT ![t] = IF CacheBeforeMember THEN "vimport" ELSE "vcache"] /\ UNCHANGED ret
                 ELSE pc' = [pc EXCEPT ![t] = "done"] /\ ret' = [ret EXCEPT ![t] = <<"none">>]
              /\ UNCHANGED <<imp, db, cc, arg, calls, held>>
VCache(t) == /\ pc[t] = "vcache"
             /\ LET k == Target(Alias(arg[t]))
                IN IF cc[k] # "absent"
                   THEN pc' = [pc EXCEPT ![t] = "done"] /\ ret' = [ret EXCEPT ![t] = <<"module", cc[k]>>]
                   ELSE pc' = [pc EXCEPT ![t] = IF CacheBeforeMember THEN "vmember" ELSE "vimport"] /\ UNCHANGED ret
             /\ UNCHANGED <<imp, db, cc, arg, calls, held>>
(* util.get_cc_module(): __import__(package, fromlist = [name]) followed by getattr(package, name, None)           *)
VImport(t) == /\ pc[t] = "vimport"                      \* enters the import machinery
              /\ LET k == Target(Alias(arg[t]))
                 IN IF imp[k] = "absent"
                    THEN imp' = [imp EXCEPT ![k] = "body_done"] /\ pc' = [pc EXCEPT ![t] = "vattach"]   \* this thread loads it
                    ELSE UNCHANGED imp /\ pc' = [pc EXCEPT ![t] = "vgetattr"]                           \* handed over without waiting
              /\ UNCHANGED <<db, cc, arg, calls, ret, held>>
VAttach(t) == /\ pc[t] = "vattach"
              /\ imp' = [imp EXCEPT ![Target(Alias(arg[t]))] = "attached"]
              /\ pc' = [pc EXCEPT ![t] = "vgetattr"] /\ UNCHANGED <<db, cc, arg, calls, ret, held>>
VGetattr(t) == /\ pc[t] = "vgetattr"
               /\ LET k == Target(Alias(arg[t]))
                      found == imp[k] = "attached" \/ ~NoImportFallback       \* the fix asks for the submodule itself
                  IN /\ cc' = [cc EXCEPT ![k] = IF found THEN k ELSE "None"]
                     /\ ret' = [ret EXCEPT ![t] = IF found THEN <<"module", k>> ELSE <<"none">>]
               /\ pc' = [pc EXCEPT ![t] = "done"] /\ UNCHANGED <<imp, db, arg, calls, held>>

Return(t) == /\ pc[t] = "done" /\ pc' = [pc EXCEPT ![t] = "idle"] /\ UNCHANGED <<imp, db, cc, arg, calls, ret, held>>

Next == \E t \in Threads : \/ GEnter(t) \/ GCheck(t) \/ GParse(t) \/ GFail(t) \/ GStore(t) \/ GStoreEmpty(t)
                           \/ GFill(t) \/ GUse(t) \/ Mutate(t) \/ VEnter(t) \/ VMember(t) \/ VCache(t)
                           \/ VImport(t) \/ VAttach(t) \/ VGetattr(t) \/ Return(t)
Spec == Init /\ [][Next]_vars

(* every returned value depends on the arguments (and the files) only; a raised I/O fault is the environment's doing *)
PureResults ==
  \A t \in Threads : pc[t] = "done" =>
     \/ ret[t][1] = "raise"
     \/ (arg[t] \in Names /\ ret[t] = File(arg[t]))
     \/ (arg[t] \in Codes /\ ret[t] = VatOf(arg[t]))
(* what is in the cache is complete and belongs to its key *)
StoreOnlyComplete == \A n \in Names : db[Key(n)].present => (db[Key(n)].full /\ ~db[Key(n)].dirty)
KeyInjective == \A n \in Names : db[Key(n)].present => db[Key(n)].owner = n
CacheMonotone == [][\A k \in Keys : db[k].present => (db'[k].present /\ db'[k].owner = db[k].owner)]_vars
=============================================================================
