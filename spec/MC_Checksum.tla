---------------------------- MODULE MC_Checksum ----------------------------
(* Instances of ChecksumPA / ChecksumGenR2L.                                   *)
(*   ALGO=<name>              the standard definition from Checksums.tla        *)
(*   AUTOMATON_FILE=<json>    the automaton EXTRACTED from the implementation   *)
EXTENDS Checksums, Json, IOUtils, TLC

AutDef == IF "AUTOMATON_FILE" \in DOMAIN IOEnv /\ IOEnv.AUTOMATON_FILE # ""
          THEN JsonDeserialize(IOEnv.AUTOMATON_FILE)
          ELSE Standard(IOEnv.ALGO)
=============================================================================
