SPECIFICATION SpecR
INVARIANT EmitFull
CHECK_DEADLOCK FALSE
CONSTANTS
  MaxDepth = 2
  Ops = {"ins", "rep", "del", "case", "dup"}
  PosClasses = {"first", "second", "middle", "before_last", "last", "end"}
  CharClasses = {"LF", "CR", "TAB", "NUL", "VT", "FF", "FS", "US", "NEL", "LS", "PS", "ZWSP", "BOM", "NBSP", "SHY",
                 "L_DASH", "L_DOT", "L_SLASH", "L_COLON", "L_STAR", "L_COMMA", "L_APOS", "L_SPACE", "L_DIGIT",
                 "A_SPACE", "A_HYPHEN", "A_DOT", "A_SLASH", "A_COLON", "A_COMMA", "A_APOS", "A_STAR", "A_PUNCT",
                 "A_DIGIT", "A_UPPER", "A_LOWER",
                 "ND_ARABIC", "ND_DEVA", "ND_THAI", "ND_OTHER", "NO_SUPER", "NO_CIRCLED", "NO_FRACTION", "NL_ROMAN",
                 "LATIN_ACC", "GREEK", "CYRILLIC", "FW_LATIN", "CASE_EXPAND", "CASE_SPECIAL", "COMBINING",
                 "SURROGATE", "ASTRAL", "ASTRAL_DIGIT", "HAN_DIGIT"}
