----------------------------- MODULE BirthDates -----------------------------
(* C12: how personal numbers encode the birth date, per format, written from   *)
(* the national rules (positions are 1-based in the canonical number).         *)
(*   Layout(m) = [y, ylen, mo, d, moff, doff]: position/length of the year     *)
(*   digits, position of the month and day digits, and the offsets that the    *)
(*   format may add to month / day (sex, century, temporary numbers).          *)
(*   FullYear(m, v, mmraw) = the year including the century where the format   *)
(*   fixes it, else -1 (then only the last two digits are compared).           *)
EXTENDS Text, TLC

Num(v, pos, len) == FoldLeft(LAMBDA a, c : 10 * a + (c - 48), 0, SubSeq(v, pos, pos + len - 1))
AllDigits(v, pos, len) == pos + len - 1 <= Len(v) /\ \A i \in pos..(pos + len - 1) : IsDigitCp(v[i])

L(y, ylen, mo, d, moff, doff) == [y |-> y, ylen |-> ylen, mo |-> mo, d |-> d, moff |-> moff, doff |-> doff]
HasLayout(m) == m \in {"be.nn", "be.bis", "be.ssn", "bg.egn", "cn.ric", "cu.ni", "cz.rc", "sk.rc", "dk.cpr", "ee.ik", "lt.asmens",
                       "gr.amka", "id.nik", "kr.rrn", "lv.pvn", "mx.curp", "my.nric", "no.fodselsnummer", "pl.pesel", "ro.cnp",
                       "si.emso", "za.idnr"}
Layout(m) ==
  CASE m \in {"be.nn", "be.bis", "be.ssn"} -> L(1, 2, 3, 5, {0, 20, 40}, {0})
    [] m = "bg.egn" -> L(1, 2, 3, 5, {0, 20, 40}, {0})
    [] m = "cn.ric" -> L(7, 4, 11, 13, {0}, {0})
    [] m \in {"cu.ni", "kr.rrn", "my.nric", "za.idnr"} -> L(1, 2, 3, 5, {0}, {0})
    [] m \in {"cz.rc", "sk.rc"} -> L(1, 2, 3, 5, {0, 20, 50, 70}, {0})
    [] m \in {"dk.cpr", "gr.amka", "lv.pvn"} -> L(5, 2, 3, 1, {0}, {0})
    [] m = "no.fodselsnummer" -> L(5, 2, 3, 1, {0, 40, 80}, {0, 40})
    [] m \in {"ee.ik", "lt.asmens", "ro.cnp"} -> L(2, 2, 4, 6, {0}, {0})
    [] m = "id.nik" -> L(11, 2, 9, 7, {0}, {0, 40})
    [] m = "mx.curp" -> L(5, 2, 7, 9, {0}, {0})
    [] m = "pl.pesel" -> L(1, 2, 3, 5, {0, 20, 40, 60, 80}, {0})
    [] m = "si.emso" -> L(5, 3, 3, 1, {0}, {0})

FullYear(m, v) ==
  LET yy == Num(v, Layout(m).y, Layout(m).ylen)
      mm == Num(v, Layout(m).mo, 2)
  IN CASE m = "cn.ric" -> yy
       [] m = "si.emso" -> IF yy >= 800 THEN 1000 + yy ELSE 2000 + yy
       [] m = "pl.pesel" -> (CASE mm >= 80 -> 1800 [] mm >= 60 -> 2200 [] mm >= 40 -> 2100 [] mm >= 20 -> 2000 [] OTHER -> 1900) + yy
       [] m = "bg.egn" -> (CASE mm >= 40 -> 2000 [] mm >= 20 -> 1800 [] OTHER -> 1900) + yy
       [] m \in {"ee.ik", "lt.asmens"} -> (CASE v[1] \in {49, 50} -> 1800 [] v[1] \in {51, 52} -> 1900 [] v[1] \in {53, 54} -> 2000 [] OTHER -> 2100) + yy
       [] m = "ro.cnp" -> IF v[1] \in {49, 50} THEN 1900 + yy ELSE IF v[1] \in {51, 52} THEN 1800 + yy
                          ELSE IF v[1] \in {53, 54} THEN 2000 + yy ELSE -1
       [] m = "kr.rrn" -> (CASE v[7] \in {49, 50, 53, 54} -> 1900 [] v[7] \in {51, 52, 55, 56} -> 2000 [] OTHER -> 1800) + yy
       [] m = "cu.ni" -> (CASE v[7] = 57 -> 1800 [] v[7] \in 48..53 -> 1900 [] OTHER -> 2000) + yy
       [] m = "mx.curp" -> (IF IsDigitCp(v[17]) THEN 1900 ELSE 2000) + yy
       [] m = "lv.pvn" -> IF v[7] \in {48, 49, 50} THEN (CASE v[7] = 48 -> 1800 [] v[7] = 49 -> 1900 [] OTHER -> 2000) + yy ELSE -1
       [] m \in {"cz.rc", "sk.rc"} -> IF Len(v) = 9 THEN (IF yy >= 54 THEN 1800 + yy ELSE 1900 + yy)
                                      ELSE (IF yy >= 54 THEN 1900 + yy ELSE 2000 + yy)
       [] OTHER -> -1

(* ---- formats whose date is not plain digits ---- *)
(* Italian codice fiscale: yy at 7-8, month letter at 9, day (+40 for women) at 10-11; after a name collision digits may be *)
(* replaced by the letters LMNPQRSTUV (omocodia)                                                                            *)
OmoVal(c) == IF IsDigitCp(c) THEN c - 48
             ELSE CASE c = 76 -> 0 [] c = 77 -> 1 [] c = 78 -> 2 [] c = 80 -> 3 [] c = 81 -> 4 [] c = 82 -> 5
                    [] c = 83 -> 6 [] c = 84 -> 7 [] c = 85 -> 8 [] c = 86 -> 9 [] OTHER -> 99
CfMonth(c) == CASE c = 65 -> 1 [] c = 66 -> 2 [] c = 67 -> 3 [] c = 68 -> 4 [] c = 69 -> 5 [] c = 72 -> 6 [] c = 76 -> 7
                [] c = 77 -> 8 [] c = 80 -> 9 [] c = 82 -> 10 [] c = 83 -> 11 [] c = 84 -> 12 [] OTHER -> 0
CfAgrees(v, date) == /\ Len(v) = 16
                     /\ date[1] % 100 = OmoVal(v[7]) * 10 + OmoVal(v[8])
                     /\ date[2] = CfMonth(v[9])
                     /\ (OmoVal(v[10]) * 10 + OmoVal(v[11])) - date[3] \in {0, 40}
(* Swedish personnummer: [yy]yymmdd, a separator, four digits; coordination numbers add 60 to the day *)
OnlyDigits(v) == SelectSeq(v, IsDigitCp)
SeAgrees(v, date) == LET d == OnlyDigits(v)  o == IF Len(d) = 12 THEN 2 ELSE 0
                     IN /\ Len(d) \in {10, 12}
                        /\ (IF Len(d) = 12 THEN date[1] = Num(d, 1, 4) ELSE date[1] % 100 = Num(d, 1, 2))
                        /\ date[2] = Num(d, 3 + o, 2)
                        /\ Num(d, 5 + o, 2) - date[3] \in {0, 60}

(* real calendar dates (Gregorian) *)
Leap(y) == (y % 4 = 0 /\ y % 100 # 0) \/ y % 400 = 0
DaysIn(y, mth) == IF mth = 2 THEN (IF Leap(y) THEN 29 ELSE 28) ELSE IF mth \in {4, 6, 9, 11} THEN 30 ELSE 31
RealDate(y, mth, d) == mth \in 1..12 /\ d >= 1 /\ d <= DaysIn(y, mth) /\ y >= 1 /\ y <= 9999

(* the returned date <<y, mth, d>> agrees with the digits of the canonical number v *)
Agrees(m, v, date) ==
  LET lay == Layout(m)
  IN /\ AllDigits(v, lay.y, lay.ylen) /\ AllDigits(v, lay.mo, 2) /\ AllDigits(v, lay.d, 2)
     /\ (Num(v, lay.mo, 2) - date[2]) \in lay.moff
     /\ (Num(v, lay.d, 2) - date[3]) \in lay.doff
     /\ IF FullYear(m, v) >= 0 THEN date[1] = FullYear(m, v)
        ELSE date[1] % 100 = Num(v, lay.y, lay.ylen) % 100
=============================================================================
