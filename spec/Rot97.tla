-------------------------------- MODULE Rot97 --------------------------------
(* IBAN / ISO 11649: the check is ISO 7064 Mod 97-10 on the string ROTATED by   *)
(* four characters (country code and check digits moved to the end).  Single    *)
(* substitutions stay single substitutions under the rotation, but the swap of  *)
(* the second check digit with the first BBAN character becomes a swap of the   *)
(* LAST and FIRST character of the rotated string.  Because the residue is      *)
(* linear in the characters, it suffices to track the DIFFERENCE between the    *)
(* valid string and the corrupted one:                                          *)
(*    dt  difference contributed by the four leading characters (mod 97)        *)
(*    dr  difference accumulated in the BBAN part read so far (mod 97)          *)
(* the corrupted string is accepted iff (dr * 10^6 + dt) = 0 (mod 97)           *)
(* (country letters count two decimal digits each, check digits one each).      *)
(* The BBAN is bounded by MaxN characters (30 for an IBAN); the negative        *)
(* instance with MaxN = 95 shows the bound matters: at 91 BBAN digits the       *)
(* boundary swap is NOT detected, since 10^96 = 1 (mod 97).                     *)
EXTENDS Naturals, TLC
CONSTANT MaxN
M(x) == x % 97
Sub(a, b) == M(a + 97 - b)                 \* a - b mod 97
VARIABLES stage, dt, dr, n, err
vars == <<stage, dt, dr, n, err>>
Init == stage = "prefix" /\ dt = 0 /\ dr = 0 /\ n = 0 /\ err = "none"
(* an error inside the four leading characters: letter for letter in the country code (weights 10^4, 10^2), *)
(* digit for digit in the check digits (weights 10, 1), or the two check digits swapped                      *)
PrefixError ==
  /\ stage = "prefix" /\ err = "none"
  /\ \/ \E a \in 10..35, b \in 10..35, w \in {10000, 100} : a # b /\ dt' = M(Sub(b, a) * w) /\ err' = "subst"
     \/ \E a \in 0..9, b \in 0..9, w \in {10, 1} : a # b /\ dt' = M(Sub(b, a) * w) /\ err' = "subst"
     \/ \E a \in 0..9, b \in 0..9 : a # b /\ dt' = M(Sub(b, a) * 10 + Sub(a, b)) /\ err' = "swap"
  /\ stage' = "bban" /\ UNCHANGED <<dr, n>>
NoPrefixError == stage = "prefix" /\ stage' = "bban" /\ UNCHANGED <<dt, dr, n, err>>
(* the second check digit a and the first BBAN digit b exchanged *)
BoundarySwap ==
  /\ stage = "prefix" /\ err = "none"
  /\ \E a \in 0..9, b \in 0..9 : a # b /\ dt' = Sub(b, a) /\ dr' = Sub(a, b)
  /\ n' = 1 /\ err' = "swap" /\ stage' = "bban"
Same == /\ stage = "bban" /\ n < MaxN
        /\ \E mult \in {10, 100} : dr' = M(dr * mult)          \* a digit or a letter, the same in both strings
        /\ n' = n + 1 /\ UNCHANGED <<stage, dt, err>>
BbanSubst == /\ stage = "bban" /\ n < MaxN /\ err = "none"
             /\ \/ \E a \in 0..9, b \in 0..9 : a # b /\ dr' = M(dr * 10 + Sub(b, a))
                \/ \E a \in 10..35, b \in 10..35 : a # b /\ dr' = M(dr * 100 + Sub(b, a))
             /\ n' = n + 1 /\ err' = "subst" /\ UNCHANGED <<stage, dt>>
BbanSwap == /\ stage = "bban" /\ n + 1 < MaxN /\ err = "none"
            /\ \E a \in 0..9, b \in 0..9 : a # b /\ dr' = M(M(dr * 10 + Sub(b, a)) * 10 + Sub(a, b))
            /\ n' = n + 2 /\ err' = "swap" /\ UNCHANGED <<stage, dt>>
Next == PrefixError \/ NoPrefixError \/ BoundarySwap \/ Same \/ BbanSubst \/ BbanSwap
Spec == Init /\ [][Next]_vars
Detected == (stage = "bban" /\ err # "none" /\ n >= 1) => M(dr * 1000000 + dt) # 0
=============================================================================
