------------------------------- MODULE Gen_GS1 -------------------------------
(* Spec -> code for C16: element strings CONSTRUCTED by the specification from   *)
(* mappings in an ARBITRARY order of the application identifiers (a reader must  *)
(* not depend on the order encode() happens to produce): each element is the     *)
(* identifier (optionally in parentheses) and its encoded value; a variable      *)
(* length element that is not last is followed by the separator, or padded to    *)
(* its maximum length when there is none.                                        *)
EXTENDS GS1, Json, IOUtils
Maps == ndJsonDeserialize(IOEnv.MAPS_FILE)
EncodeOrdered(m, order, sep, paren) ==
  FoldLeft(LAMBDA acc, i :
             LET x == m[order[i]]
                 enc == EncVal(x.row, x.val)
             IN acc \o AiText(x.row, paren) \o
                (IF i = Len(order) \/ ~x.row.fnc1 THEN enc
                 ELSE IF sep # <<>> THEN enc \o sep ELSE PadTo(x.row, enc)),
           <<>>, [i \in 1..Len(order) |-> i])
VARIABLE k
Init == k = 1
Next == k <= Len(Maps) /\ k' = k + 1
        /\ PrintT(<<"X", Maps[k].id, EncodeOrdered(Maps[k].m, Maps[k].order, Maps[k].sep, Maps[k].paren)>>)
Spec == Init /\ [][Next]_k
=============================================================================
