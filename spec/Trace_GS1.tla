------------------------------ MODULE Trace_GS1 ------------------------------
(* C16.  Each event is one mapping (1..5 application identifiers with values of  *)
(* their declared formats) in one mode (separator, parentheses) with what the    *)
(* code did: enc = encode(m), dec1 = info(enc), val1 = validate(enc),            *)
(* dec2 = info(val1), val2 = validate(val1); mappings as canonical JSON text.    *)
EXTENDS GS1, Json, IOUtils
Trace == ndJsonDeserialize(IOEnv.TRACE_FILE)
VARIABLES l, nrej
IsStr(r) == r.k = "ret" /\ r.t = "str"
M(e) == [i \in 1..Len(e.m) |-> [row |-> e.m[i].row, val |-> e.m[i].val]]
M1(e) == \A i \in 1..Len(e.m) : Fits(e.m[i].row, e.m[i].val)
Ordered(e) == "ordered" \in DOMAIN e /\ e.ordered
(* E1: the code's encoding is the specification's encoding (where the spec covers every value kind of the mapping) *)
E1(e) == (e.spec_covers /\ ~Ordered(e)) => (IsStr(e.enc) /\ e.enc.v = Encode(M(e), e.sep, e.paren))
(* RT1: decoding the encoding returns the mapping *)
RT1(e) == e.dec1 = e.want
(* RT2: the validated form decodes to the same mapping as the input *)
RT2(e) == IsStr(e.val1) /\ e.dec2 = e.dec1
(* RT3: the validated form is itself unchanged by validation *)
RT3(e) == IsStr(e.val1) => (IsStr(e.val2) /\ e.val2.v = e.val1.v)
ClauseNames == <<"M1", "E1", "RT1", "RT2", "RT3">>
Clauses(e) == [M1 |-> M1(e), E1 |-> E1(e), RT1 |-> RT1(e), RT2 |-> RT2(e), RT3 |-> RT3(e)]
Failing(e) == LET c == Clauses(e) IN SelectSeq(ClauseNames, LAMBDA n : ~c[n])
Init == l = 1 /\ nrej = 0
Step == /\ l <= Len(Trace)
        /\ LET e == Trace[l]  bad == Failing(e)
           IN IF bad = <<>> THEN nrej' = nrej ELSE nrej' = nrej + 1 /\ PrintT(<<"REJ", e.tid, l, bad>>)
        /\ l' = l + 1
Spec == Init /\ [][Step]_<<l, nrej>>
Accepted == /\ TLCGet("stats").diameter - 1 = Len(Trace)
            /\ PrintT(<<"DONE", Len(Trace), TLCGet("stats").diameter - 1>>)
=============================================================================
