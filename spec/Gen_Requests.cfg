SPECIFICATION Spec
INVARIANT Emit
CHECK_DEADLOCK FALSE
CONSTANTS
  MaxLen = 4
  Classes = {"absent", "empty", "repeated", "other_only", "bad_utf8", "plus", "nul", "newline", "long", "markup",
             "markup_valid", "valid", "near_valid", "foreign_digits", "semicolon", "encoded_amp", "unicode",
             "many_fields", "many_separators", "many_numbers"}
