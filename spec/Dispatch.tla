------------------------------ MODULE Dispatch ------------------------------
(* C09: validators that dispatch to or wrap other formats agree with them.     *)
(* Relation layer: what the property states, per wrapper, over recorded        *)
(* outcomes of the wrapper and of its constituents on the same input.          *)
EXTENDS Text, TLC

IsStrRet(r) == r.k = "ret" /\ r.t = "str"
Acc(r) == IsStrRet(r)

(* the member states of the EU VAT area (27 + XI), as two-letter prefixes; EL is the prefix *)
(* Greece uses, its validator lives under gr; XI (Northern Ireland) uses the gb validator   *)
MemberPrefixes == {"AT", "BE", "BG", "CY", "CZ", "DE", "DK", "EE", "ES", "FI", "FR", "GR", "EL", "HR", "HU", "IE",
                   "IT", "LT", "LU", "LV", "MT", "NL", "PL", "PT", "RO", "SE", "SI", "SK", "XI"}
OssPrefixes == {"EU", "IM"}
ModuleOf(p) == IF p = "EL" THEN "gr" ELSE IF p = "XI" THEN "gb" ELSE p   \* (lower-cased by the driver)

Project(x) == Strip(UpperAscii(x))

(* ---- eu.vat ---- *)
(* e.x input (ASCII), e.proj the projection the driver handed to the constituent, e.pfx its first two characters *)
(* as a string, e.member whether the driver found pfx among the member prefixes, e.wr wrapper, e.cr constituent *)
EV_M(e) == e.kind = "euvat" => (e.proj = Project(e.x) /\ e.member = (e.pfx \in MemberPrefixes \cup OssPrefixes))
EV_1(e) == e.kind = "euvat" => (Acc(e.wr) <=> (e.member /\ Acc(e.cr)))
EV_2(e) == (e.kind = "euvat" /\ Acc(e.wr) /\ Acc(e.cr))
              => LET cc == SubSeq(e.proj, 1, 2)
                 IN /\ StartsWith(e.wr.v, cc)
                    /\ e.wr.v = (IF StartsWith(e.cr.v, cc) THEN e.cr.v ELSE cc \o e.cr.v)
(* ---- superset with equal result (vatin over eu.vat; es.nif over dni/nie/cif) ---- *)
SUP(e) == e.kind = "superset" => (Acc(e.inner) => (Acc(e.outer) /\ (e.same => e.outer.v = e.inner.v)))
(* ---- thin wrappers that add a fixed affix to another format (no.mva = orgnr + MVA, se.vat = orgnr + 01, ch.vat = uid + MWST, ----*)
(* ---- fi.ytunnus = alv with a hyphen): accepted exactly when the inner number is                                            ----*)
IFF(e) == e.kind = "iff" => (Acc(e.outer) <=> Acc(e.inner))
(* ---- union in order (us.tin, be.ssn, th.tin, ro.cf): e.parts in the wrapper's own order ---- *)
FirstAcc(parts) == IF \E i \in 1..Len(parts) : Acc(parts[i])
                   THEN parts[CHOOSE i \in 1..Len(parts) : Acc(parts[i]) /\ \A j \in 1..(i - 1) : ~Acc(parts[j])]
                   ELSE [k |-> "none", t |-> "", v |-> <<>>]
UNI_1(e) == e.kind = "union" => (Acc(e.wr) <=> \E i \in 1..Len(e.parts) : Acc(e.parts[i]))
UNI_2(e) == (e.kind = "union" /\ e.ordered /\ Acc(e.wr)) => e.wr.v = FirstAcc(e.parts).v
UNI_3(e) == (e.kind = "union" /\ e.hasguess)
               => e.guess = FoldLeft(LAMBDA acc, i : IF Acc(e.parts[i]) THEN Append(acc, e.names[i]) ELSE acc,
                                     <<>>, [i \in 1..Len(e.names) |-> i])
(* ---- IBAN: generic rules and, where one exists, the national validator ---- *)
IB_1(e) == e.kind = "iban" => (Acc(e.wr) <=> (Acc(e.generic) /\ (~e.hasnational \/ Acc(e.national))))
IB_2(e) == (e.kind = "iban" /\ Acc(e.wr)) => e.wr.v = e.generic.v
(* ---- guess_country lists exactly the member states whose validator accepts ---- *)
GC(e) == e.kind = "guess" => e.guess = e.accepting          \* both sorted by the recorder
(* ---- get_cc_module(cc, name) is the module stdnum.<cc>.<name> where cc gets a trailing underscore for in/is/if ---- *)
CCM(e) == e.kind = "ccmod" => e.got = e.want
=============================================================================
