SPECIFICATION Spec
CONSTANTS
  Variant = "inner_strips_more"
  MaxLen = 3
  MaxY = 3
INVARIANT FixedPoint
INVARIANT NoEdgeSpace
INVARIANT CompactDetermined
CHECK_DEADLOCK FALSE
