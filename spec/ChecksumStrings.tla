-------------------------- MODULE ChecksumStrings --------------------------
(* Behaviour generator: random strings over the automaton's alphabet (TLC      *)
(* simulation; every prefix is emitted).  The driver replays them into the     *)
(* implementation's checksum / is_valid / calc_check_digit.                    *)
EXTENDS MC_Checksum
VARIABLE h
NA == AutDef.na
MaxLen == 64
Init == h = <<>>
Next == Len(h) < MaxLen /\ h' = Append(h, RandomElement(0..(NA - 1)))
Spec == Init /\ [][Next]_h
Emit == h = <<>> \/ PrintT(<<"STR", h>>)
=============================================================================
