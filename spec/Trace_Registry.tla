---------------------------- MODULE Trace_Registry ----------------------------
(* C11: every shipped registry line is understood completely, every entry can   *)
(* be reached, and consumer-level witnesses built from the entries work.        *)
(* Events of one registry file arrive in file order (kind "line"), so the open  *)
(* indentation levels are session state; witness events follow.                 *)
EXTENDS NumDBFile, FiniteSetsExt, TLC, Json, IOUtils

Trace == ndJsonDeserialize(IOEnv.TRACE_FILE)
VARIABLES l, nrej, open, file

(* R1: what numdb's own parser made of the line = the grammar's reading          *)
R1(e) == e.kind = "line" =>
            /\ e.indent = IndentOf(e.text)
            /\ e.ranges = Ranges(e.text)
            /\ {<<e.props[i][1], e.props[i][2]>> : i \in 1..Len(e.props)}
                 = LET p == Props(e.text).props
                       keys == {p[i][1] : i \in 1..Len(p)}
                       last(k) == CHOOSE i \in 1..Len(p) : p[i][1] = k /\ \A j \in (i + 1)..Len(p) : p[j][1] # k
                   IN {<<k, p[last(k)][2]>> : k \in keys}
R2(e) == e.kind = "line" => WellFormedLine(e.text)
(* consistent nesting: deeper than the previous line, or back to a level that is still open *)
OpenNow(e) == IF e.file = file THEN open ELSE <<>>
R2n(e) == e.kind = "line" =>
            LET o == OpenNow(e) IN
              IF o = <<>> THEN e.indent = 0
              ELSE e.indent > o[Len(o)] \/ \E i \in 1..Len(o) : o[i] = e.indent
(* R3: looking up the entry's own low end (through its ancestors' low ends) reaches it:       *)
(* the part found at its depth has exactly its length and carries its properties              *)
R3(e) == e.kind = "reach" =>
            /\ Len(e.obs) >= e.depth
            /\ e.obs[e.depth][1] = e.low
            /\ \A i \in 1..Len(e.props) :
                  \E j \in 1..Len(e.obs[e.depth][2]) : e.obs[e.depth][2][j] = e.props[i]
(* consumer witnesses: the recorded outcome of the consumer on the witness                   *)
W1(e) == e.kind = "w_eq" => e.got = e.want
(* ISBN: a number inside the range hyphenates into five non-empty parts that concatenate to it *)
W2(e) == e.kind = "w_isbn" => (/\ Len(e.got) = 5 /\ \A i \in 1..5 : e.got[i] # <<>>
                              /\ e.got[1] \o e.got[2] \o e.got[3] \o e.got[4] \o e.got[5] = e.w)
(* the consumer's answer contains every property of the entry (it may add fields of its own) *)
W3(e) == e.kind = "w_sub" => \A i \in 1..Len(e.want) : \E j \in 1..Len(e.got) : e.got[j] = e.want[i]
ClauseNames == <<"R1", "R2", "R2n", "R3", "W1", "W2", "W3">>
Clauses(e) == [R1 |-> R1(e), R2 |-> R2(e), R2n |-> R2n(e), R3 |-> R3(e), W1 |-> W1(e), W2 |-> W2(e), W3 |-> W3(e)]
Failing(e) == LET c == Clauses(e) IN SelectSeq(ClauseNames, LAMBDA n : ~c[n])

Pop(o, d) == LET keep == {i \in 1..Len(o) : o[i] < d} IN SubSeq(o, 1, IF keep = {} THEN 0 ELSE Max(keep))
Init == l = 1 /\ nrej = 0 /\ open = <<>> /\ file = ""
Step == /\ l <= Len(Trace)
        /\ LET e == Trace[l]  bad == Failing(e)
           IN /\ IF bad = <<>> THEN nrej' = nrej
                 ELSE nrej' = nrej + 1 /\ PrintT(<<"REJ", e.tid, l, bad>>)
              /\ IF e.kind = "line"
                 THEN open' = Append(Pop(OpenNow(e), e.indent), e.indent) /\ file' = e.file
                 ELSE UNCHANGED <<open, file>>
        /\ l' = l + 1
Spec == Init /\ [][Step]_<<l, nrej, open, file>>
Accepted == /\ TLCGet("stats").diameter - 1 = Len(Trace)
            /\ PrintT(<<"DONE", Len(Trace), TLCGet("stats").diameter - 1>>)
=============================================================================
