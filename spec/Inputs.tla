------------------------------- MODULE Inputs -------------------------------
(* The abstract input model shared by the API-contract properties.            *)
(* An input is a base plus an edit script; an edit is                          *)
(*      op x position class x character class.                                 *)
(* TLC enumerates the scripts (exhaustively up to MaxDepth, or by simulation); *)
(* the Python concretiser turns each abstract script into concrete strings for *)
(* every base number of every module ("each" = every concrete position).       *)
EXTENDS Naturals, Sequences, TLC

CONSTANTS MaxDepth,      \* number of edits in a script
          Ops,           \* subset of {"ins", "rep", "del", "trunc", "case"}
          PosClasses,    \* e.g. {"each"} or {"first", "second", "middle", "before_last", "last", "end"}
          CharClasses    \* names of character classes (see harness/vlib/inputs.py)

VARIABLE script

NeedsChar(op) == op \in {"ins", "rep"}

Edits == {[op |-> o, pos |-> p, ch |-> c] : o \in Ops \cap {"ins", "rep"}, p \in PosClasses, c \in CharClasses}
         \cup {[op |-> o, pos |-> p, ch |-> "-"] : o \in Ops \ {"ins", "rep"}, p \in PosClasses}

Init == script = <<>>
Next == Len(script) < MaxDepth /\ \E e \in Edits : script' = Append(script, e)
Spec == Init /\ [][Next]_script

(* emission: every distinct reachable script is printed once                   *)
Emit == script = <<>> \/ PrintT(<<"SCRIPT", script>>)
=============================================================================
