------------------------------- MODULE NumDB -------------------------------
(* The meaning of a registry (numdb) file, declaratively.                      *)
(* An entry is [len, low, high, props, kids]: a range of prefixes of one       *)
(* length with properties (a sequence of <<key, value>> in file order) and     *)
(* child entries.  Lookup of a number n in a level (a sequence of entries):    *)
(*   - the entries that match are those with len <= Len(n) and                 *)
(*     low <= Prefix(n, len) <= high (lexicographic on code points);           *)
(*   - none: the whole of n is one property-less part;                         *)
(*   - otherwise the SHORTEST matching length k wins, the part is Prefix(n,k), *)
(*     its properties are those of ALL matching entries of length k merged in  *)
(*     file order (later overrides earlier), and the rest of n is looked up in *)
(*     the concatenated children of those entries.                             *)
EXTENDS Text, FiniteSetsExt

Prefix(n, k) == SubSeq(n, 1, k)
Rest(n, k) == SubSeq(n, k + 1, Len(n))
Matches(e, n) == Len(n) >= e.len /\ LexLeq(e.low, Prefix(n, e.len)) /\ LexLeq(Prefix(n, e.len), e.high)

(* merged properties as a set of <<key, value>> pairs                          *)
MergeProps(ps) ==
  LET keys == {ps[i][1] : i \in 1..Len(ps)}
      last(k) == Max({i \in 1..Len(ps) : ps[i][1] = k})
  IN {<<k, ps[last(k)][2]>> : k \in keys}

RECURSIVE Find(_, _)
Find(n, level) ==
  IF n = <<>> THEN <<>>
  ELSE LET idx == {i \in 1..Len(level) : Matches(level[i], n)}
       IN IF idx = {} THEN << [part |-> n, props |-> {}] >>
          ELSE LET k == Min({level[i].len : i \in idx})
                   W == SelectSeq([i \in 1..Len(level) |-> i], LAMBDA i : i \in idx /\ level[i].len = k)
                   allprops == FoldLeft(LAMBDA acc, i : acc \o level[i].props, <<>>, W)
                   kids == FoldLeft(LAMBDA acc, i : acc \o level[i].kids, <<>>, W)
               IN << [part |-> Prefix(n, k), props |-> MergeProps(allprops)] >> \o Find(Rest(n, k), kids)

Concat(parts) == FoldLeft(LAMBDA acc, p : acc \o p.part, <<>>, parts)

(* ---- the properties C10 states, over any lookup result r of number n in level ---- *)
Lossless(n, r) == Concat(r) = n
PartsNonEmpty(r) == \A i \in 1..Len(r) : r[i].part # <<>>
(* shortest matching prefix wins at the first level (deeper levels by recursion)       *)
ShortestWins(n, level, r) ==
  (n # <<>> /\ \E i \in 1..Len(level) : Matches(level[i], n))
     => Len(r[1].part) = Min({level[i].len : i \in {j \in 1..Len(level) : Matches(level[j], n)}})
UnmatchedIsOnePart(n, level, r) ==
  (n # <<>> /\ ~\E i \in 1..Len(level) : Matches(level[i], n)) => r = << [part |-> n, props |-> {}] >>
(* every matching entry of the winning length contributes (unless overridden by a later one) *)
MergeAll(n, level, r) ==
  \A i \in 1..Len(level) :
     (Matches(level[i], n) /\ level[i].len = Len(r[1].part))
        => \A j \in 1..Len(level[i].props) :
              \E kv \in r[1].props : kv[1] = level[i].props[j][1]
=============================================================================
