----------------------------- MODULE Trace_NumDB -----------------------------
(* C10 trace validation: each event is one lookup performed by the real numdb   *)
(* on a registry whose tree (independently parsed, or the generated tree) is in *)
(* DB_FILE: an object with field "dbs", a sequence of trees; the event names    *)
(* the tree by index.  TLC evaluates the declarative lookup and compares.       *)
EXTENDS NumDB, TLC, Json, IOUtils

DBS == JsonDeserialize(IOEnv.DB_FILE).dbs
Trace == ndJsonDeserialize(IOEnv.TRACE_FILE)
VARIABLES l, nrej

PairSeq(ps) == [i \in 1..Len(ps) |-> <<ps[i][1], ps[i][2]>>]
RECURSIVE Norm(_)
Norm(level) == [i \in 1..Len(level) |->
                  [len |-> level[i].len, low |-> level[i].low, high |-> level[i].high,
                   props |-> PairSeq(level[i].props), kids |-> Norm(level[i].kids)]]
(* first-character index over the top level (registries have up to 40,000 top-level ranges)  *)
TopIndex(db) ==
  FoldLeft(LAMBDA acc, i :
             LET e == db[i]
             IN [c \in DOMAIN acc |-> IF e.low[1] <= c /\ c <= e.high[1] THEN Append(acc[c], i) ELSE acc[c]],
           [c \in 0..127 |-> <<>>], [i \in 1..Len(db) |-> i])
NDBS == [d \in 1..Len(DBS) |-> Norm(DBS[d])]
INDEX == [d \in 1..Len(DBS) |-> TopIndex(NDBS[d])]
Cands(d, n) == IF n = <<>> \/ n[1] > 127 THEN <<>>
               ELSE [j \in 1..Len(INDEX[d][n[1]]) |-> NDBS[d][INDEX[d][n[1]][j]]]

Obs(e) == [i \in 1..Len(e.obs) |->
             [part |-> e.obs[i][1], props |-> {<<e.obs[i][2][j][1], e.obs[i][2][j][2]>> : j \in 1..Len(e.obs[i][2])}]]

L1(e) == Obs(e) = Find(e.q, Cands(e.db, e.q))
L2(e) == Lossless(e.q, Obs(e))
L3(e) == PartsNonEmpty(Obs(e))
ClauseNames == <<"L1", "L2", "L3">>
Clauses(e) == [L1 |-> L1(e), L2 |-> L2(e), L3 |-> L3(e)]
Failing(e) == LET c == Clauses(e) IN SelectSeq(ClauseNames, LAMBDA n : ~c[n])

Init == l = 1 /\ nrej = 0
Step == /\ l <= Len(Trace)
        /\ LET e == Trace[l]  bad == Failing(e)
           IN IF bad = <<>> THEN nrej' = nrej
              ELSE nrej' = nrej + 1 /\ PrintT(<<"REJ", e.tid, l, bad>>)
        /\ l' = l + 1
Spec == Init /\ [][Step]_<<l, nrej>>
Accepted == /\ TLCGet("stats").diameter - 1 = Len(Trace)
            /\ PrintT(<<"DONE", Len(Trace), TLCGet("stats").diameter - 1>>)
=============================================================================
