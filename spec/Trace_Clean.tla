----------------------------- MODULE Trace_Clean -----------------------------
(* C14.  Session state: next (the next code point that must be reported, so the *)
(* events cover 0..1114111 exactly once, in order), map (the observed           *)
(* non-identity entries), nonfixed (ASCII characters that are not fixed         *)
(* points).  Event kinds: cp, run, str, u10, u11.                                   *)
EXTENDS Clean, TLC, Json, IOUtils

Trace == ndJsonDeserialize(IOEnv.TRACE_FILE)
VARIABLES l, nrej, next, map, nonfixed

IsStrRet(r) == r.k = "ret" /\ r.t = "str"
Cover(e) == e.kind \in {"cp", "run"} => (IF e.kind = "cp" THEN e.cp = next ELSE e.lo = next /\ e.hi >= e.lo)
C1(e) == e.kind = "cp" => U1(e.cp, e.out, e.dec)
C2(e) == e.kind = "cp" => U2(e.cp, e.out, e.cat)
C3(e) == e.kind = "cp" => U3(e.cp, e.out)
C4(e) == e.kind = "cp" => U4(e.cp, e.out)
C5(e) == e.kind = "cp" => U5(e.cp, e.out, nonfixed)
(* runs are identity runs of characters that are neither ASCII alphanumerics nor Unicode decimal *)
(* digits nor space separators: nothing to constrain beyond coverage                              *)
C9(e) == e.kind = "str" => e.out = CleanSpec(map, e.s, e.del)                 \* U6 + U9
C7(e) == e.kind = "str" => \A i \in 1..Len(e.out) : \A j \in 1..Len(e.del) : e.out[i] # e.del[j]
C8(e) == e.kind = "str" => e.out2 = e.out                                     \* cleaning twice = once
C10(e) == e.kind = "u10" => (IsStrRet(e.r0) => (IsStrRet(e.r1) /\ e.r1.v = e.r0.v))
(* module-level clean-up (a format's own translation table, e.g. eg.tn's Arabic-Indic digits): the foreign character  *)
(* e.ch put in the place of digit e.d of a valid number.  When the number is still accepted with the same result -- and *)
(* simply dropping that position would NOT have given the same result -- the character was turned into digit d, which  *)
(* is allowed only if Unicode assigns it that decimal value (e.dec; -1 = none)                                         *)
C11(e) == e.kind = "u11" => ((IsStrRet(e.r0) /\ IsStrRet(e.r1) /\ e.r1.v = e.r0.v /\ ~(IsStrRet(e.rdel) /\ e.rdel.v = e.r0.v))
                              => e.dec = e.d - 48)
(* ... and, for the characters a module's own translation table mentions: whichever ASCII digit d (e.rd[d + 1] = the outcome    *)
(* with d at that place) the character behaves like, d is its Unicode decimal value                                             *)
C12(e) == e.kind = "u12" => \A d \in 0..9 :
            (IsStrRet(e.r1) /\ IsStrRet(e.rd[d + 1]) /\ e.r1.v = e.rd[d + 1].v /\ ~(IsStrRet(e.rdel) /\ e.rdel.v = e.r1.v)) => e.dec = d
(* the clean-up table the library declares (source -> ASCII target) is what clean() applies, alone and in context *)
T1(e) == e.kind = "tab" => (e.alone = <<e.tgt>> /\ e.ctx = <<49, e.tgt, 65>> /\ e.twice = <<e.tgt, e.tgt>>)
Done(e) == e.kind = "end" => next = 1114112
ClauseNames == <<"Cover", "U1", "U2", "U3", "U4", "U5", "U7", "U8", "U9", "U10", "U11", "U12", "T1", "Done">>
Clauses(e) == [Cover |-> Cover(e), U1 |-> C1(e), U2 |-> C2(e), U3 |-> C3(e), U4 |-> C4(e), U5 |-> C5(e),
               U7 |-> C7(e), U8 |-> C8(e), U9 |-> C9(e), U10 |-> C10(e), U11 |-> C11(e), U12 |-> C12(e), T1 |-> T1(e), Done |-> Done(e)]
Failing(e) == LET c == Clauses(e) IN SelectSeq(ClauseNames, LAMBDA n : ~c[n])

Init == l = 1 /\ nrej = 0 /\ next = 0 /\ map = <<>> /\ nonfixed = {}
Step == /\ l <= Len(Trace)
        /\ LET e == Trace[l]  bad == Failing(e)
           IN /\ IF bad = <<>> THEN nrej' = nrej
                 ELSE nrej' = nrej + 1 /\ PrintT(<<"REJ", e.tid, l, bad>>)
              /\ next' = IF e.kind = "cp" THEN e.cp + 1 ELSE IF e.kind = "run" THEN e.hi + 1 ELSE next
              /\ map' = IF e.kind = "cp" /\ e.out # <<e.cp>> THEN (e.cp :> e.out) @@ map ELSE map
              /\ nonfixed' = IF e.kind = "cp" /\ e.cp < 128 /\ e.out # <<e.cp>> THEN nonfixed \cup {e.cp} ELSE nonfixed
        /\ l' = l + 1
Spec == Init /\ [][Step]_<<l, nrej, next, map, nonfixed>>
Accepted == /\ TLCGet("stats").diameter - 1 = Len(Trace)
            /\ PrintT(<<"DONE", Len(Trace), TLCGet("stats").diameter - 1>>)
=============================================================================
