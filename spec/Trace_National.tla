---------------------------- MODULE Trace_National ----------------------------
(* Agreement of national validators with the transcriptions of National.tla:     *)
(* N1  validate(x) accepted  <=>  AcceptN(m, compact(x)).  Spec growth beyond    *)
(* the listed properties: disagreements are reported as observations.            *)
(* N3  the same for the formats whose rules mention the system date (y = the     *)
(* year the recording process saw).                                              *)
EXTENDS National, Json, IOUtils
Trace == ndJsonDeserialize(IOEnv.TRACE_FILE)
VARIABLES l, nrej
IsStrRet(r) == r.k = "ret" /\ r.t = "str"
N1(e) == e.m \in Known => (IsStrRet(e.r) <=> AcceptN(e.m, e.c))
N2(e) == e.m \in Necessary => (IsStrRet(e.r) => NecessaryN(e.m, e.c))
N3(e) == e.m \in KnownClock => (IsStrRet(e.r) <=> AcceptClock(e.m, e.c, e.y))
N0(e) == e.m \in Known \cup Necessary
ClauseNames == <<"N0", "N1", "N2", "N3">>
Clauses(e) == [N0 |-> N0(e), N1 |-> N1(e), N2 |-> N2(e), N3 |-> N3(e)]
Failing(e) == LET c == Clauses(e) IN SelectSeq(ClauseNames, LAMBDA n : ~c[n])
Init == l = 1 /\ nrej = 0
Step == /\ l <= Len(Trace)
        /\ LET e == Trace[l]  bad == Failing(e)
           IN IF bad = <<>> THEN nrej' = nrej ELSE nrej' = nrej + 1 /\ PrintT(<<"REJ", e.tid, l, bad>>)
        /\ l' = l + 1
Spec == Init /\ [][Step]_<<l, nrej>>
Accepted == /\ TLCGet("stats").diameter - 1 = Len(Trace)
            /\ PrintT(<<"DONE", Len(Trace), TLCGet("stats").diameter - 1>>)
=============================================================================
