--------------------------- MODULE Trace_NumDBTree ---------------------------
(* C10/C11: the tree that numdb.read() builds from a registry file is the tree  *)
(* the file means (NumDBFile!BuildTree over the parsed lines).  Properties are  *)
(* compared as sets of pairs (numdb keeps the last of duplicate keys).           *)
EXTENDS NumDBFile, FiniteSetsExt, TLC, Json, IOUtils
Trace == ndJsonDeserialize(IOEnv.TRACE_FILE)
VARIABLES l, nrej
PropSet(ps) == LET keys == {ps[i][1] : i \in 1..Len(ps)}
                   last(k) == Max({i \in 1..Len(ps) : ps[i][1] = k})
               IN {<<k, ps[last(k)][2]>> : k \in keys}
RECURSIVE Norm(_)
Norm(level) == [i \in 1..Len(level) |-> [len |-> level[i].len, low |-> level[i].low, high |-> level[i].high,
                                         props |-> PropSet(level[i].props), kids |-> Norm(level[i].kids)]]
B1(e) == Norm(e.obs) = Norm(BuildTree(e.lines))
Init == l = 1 /\ nrej = 0
Step == /\ l <= Len(Trace)
        /\ LET e == Trace[l]
           IN IF B1(e) THEN nrej' = nrej ELSE nrej' = nrej + 1 /\ PrintT(<<"REJ", e.tid, l, <<"B1">>>>)
        /\ l' = l + 1
Spec == Init /\ [][Step]_<<l, nrej>>
Accepted == /\ TLCGet("stats").diameter - 1 = Len(Trace)
            /\ PrintT(<<"DONE", Len(Trace), TLCGet("stats").diameter - 1>>)
=============================================================================
