------------------------------ MODULE MC_NumDB ------------------------------
(* Bounded-exhaustive check of the declarative lookup: all registries over the  *)
(* alphabet {0,1} with top-level ranges of length <= 2, child ranges of length  *)
(* 1, three property sets, <= 2 top-level entries with <= 1 child each, and all *)
(* queries of length <= MaxQ.                                                   *)
EXTENDS NumDB, TLC
CONSTANTS MaxTop, MaxQ
A == {48, 49}
Strs(k) == UNION {[1..j -> A] : j \in 1..k}
Ranges(k) == {r \in Strs(k) \X Strs(k) : Len(r[1]) = Len(r[2]) /\ LexLeq(r[1], r[2])}
Leaf(r, p) == [len |-> Len(r[1]), low |-> r[1], high |-> r[2], props |-> p, kids |-> <<>>]
Props == { <<>>, << <<"a", "1">> >>, << <<"a", "2">> >> }
Leaves == {Leaf(r, p) : r \in Ranges(2), p \in Props}
KidLeaves == {Leaf(r, p) : r \in Ranges(1), p \in Props}
VARIABLES db, q, phase
Init == db = <<>> /\ q = <<>> /\ phase = "build"
AddTop == phase = "build" /\ Len(db) < MaxTop /\ \E e \in Leaves : db' = Append(db, e) /\ UNCHANGED <<q, phase>>
AddKid == phase = "build" /\ Len(db) > 0 /\ Len(db[Len(db)].kids) < 1
          /\ \E e \in KidLeaves : db' = [db EXCEPT ![Len(db)].kids = Append(@, e)] /\ UNCHANGED <<q, phase>>
Query == phase = "build" /\ \E n \in Strs(MaxQ) \cup {<<>>} : q' = n /\ phase' = "query" /\ UNCHANGED db
Next == AddTop \/ AddKid \/ Query
Spec == Init /\ [][Next]_<<db, q, phase>>
R == Find(q, db)
InvLossless == phase = "query" => Lossless(q, R)
InvNonEmpty == phase = "query" => PartsNonEmpty(R)
InvShortest == phase = "query" => ShortestWins(q, db, R)
InvUnmatched == phase = "query" => UnmatchedIsOnePart(q, db, R)
InvMergeAll == (phase = "query" /\ q # <<>>) => MergeAll(q, db, R)
InvEmpty == (phase = "query" /\ q = <<>>) => R = <<>>
=============================================================================
