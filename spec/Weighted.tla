------------------------------ MODULE Weighted ------------------------------
(* Positional weighted-sum check digits (ISBN-10, ISSN, EAN/GTIN/ISBN-13/ISMN) *)
(* as a product automaton over a FIXED length: two copies read the same digits *)
(* except for one substitution of a digit by another digit or one swap of two  *)
(* adjacent different digits.  State: position and the two residues.           *)
EXTENDS Naturals, Sequences, TLC

CONSTANT F      \* [len, w (weights by position), m (modulus), lastx (BOOLEAN), swap (BOOLEAN: swaps claimed)]

VARIABLES pos, r1, r2, phase, h1, h2
vars == <<pos, r1, r2, phase, h1, h2>>
view == <<pos, r1, r2, phase>>

W(i) == F.w[i]
Syms(i) == IF F.lastx /\ i = F.len THEN 0..10 ELSE 0..9
Add(r, i, d) == (r + W(i) * d) % F.m

Init == pos = 0 /\ r1 = 0 /\ r2 = 0 /\ phase = "same" /\ h1 = <<>> /\ h2 = <<>>
Same == /\ pos < F.len
        /\ \E d \in Syms(pos + 1) : /\ r1' = Add(r1, pos + 1, d) /\ r2' = Add(r2, pos + 1, d)
                                    /\ h1' = Append(h1, d) /\ h2' = Append(h2, d)
        /\ pos' = pos + 1 /\ UNCHANGED phase
Subst == /\ pos < F.len /\ phase = "same"
         /\ \E a \in 0..9, b \in 0..9 : /\ a # b
                                        /\ r1' = Add(r1, pos + 1, a) /\ r2' = Add(r2, pos + 1, b)
                                        /\ h1' = Append(h1, a) /\ h2' = Append(h2, b)
         /\ pos' = pos + 1 /\ phase' = "subst"
Swap == /\ pos + 1 < F.len /\ phase = "same"
        /\ \E a \in 0..9, b \in 0..9 : /\ a # b
              /\ r1' = Add(Add(r1, pos + 1, a), pos + 2, b) /\ r2' = Add(Add(r2, pos + 1, b), pos + 2, a)
              /\ h1' = h1 \o <<a, b>> /\ h2' = h2 \o <<b, a>>
        /\ pos' = pos + 2 /\ phase' = "swap"
Next == Same \/ Subst \/ Swap
Spec == Init /\ [][Next]_vars

SubstDetected == (pos = F.len /\ phase = "subst") => ~(r1 = 0 /\ r2 = 0)
SwapDetected == (F.swap /\ pos = F.len /\ phase = "swap") => ~(r1 = 0 /\ r2 = 0)
(* exactly one check digit completes any body (the check digit is the last position) *)
CheckUnique == (pos = F.len - 1 /\ phase = "same")
                 => \E d \in Syms(F.len) : /\ Add(r1, F.len, d) = 0
                                           /\ \A d2 \in Syms(F.len) : Add(r1, F.len, d2) = 0 => d2 = d
=============================================================================
