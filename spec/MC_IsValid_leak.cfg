SPECIFICATION Spec
CONSTANT Variant = "leak"
INVARIANT V2
INVARIANT V3
CHECK_DEADLOCK FALSE
