-------------------------- MODULE Trace_CheckDigit --------------------------
(* C05: check digit generators and validators agree.                           *)
(*  p1  calc(payload(v)) is the check slice of the valid number v              *)
(*  p2  v with one check character replaced by another is rejected             *)
(*  p3  payload completed with the generated character(s) is never rejected    *)
(*      with a checksum error                                                  *)
(* The positional conventions (where the check characters live, what the       *)
(* generator is given) are defined here; the driver's slicing is re-checked    *)
(* (clauses M1..M3).                                                           *)
EXTENDS Text, TLC, Json, IOUtils

Trace == ndJsonDeserialize(IOEnv.TRACE_FILE)
VARIABLES l, nrej

NCheck(conv) == IF conv \in {"last2", "full_last2", "first2", "full_at2_2"} THEN 2 ELSE 1
Payload(conv, v) ==
  CASE conv = "last1" -> SubSeq(v, 1, Len(v) - 1)
    [] conv = "last2" -> SubSeq(v, 1, Len(v) - 2)
    [] conv \in {"full_last1", "full_last2", "full_at2_2"} -> v
    [] conv = "first2" -> SubSeq(v, 3, Len(v))
    [] conv = "skip3_last1" -> SubSeq(v, 4, Len(v) - 1)
    [] conv = "first9_at9" -> SubSeq(v, 1, 9)
    [] conv = "first1" -> SubSeq(v, 2, Len(v))
    [] conv = "last1_of_9" -> SubSeq(v, 1, 8)
CheckLo(conv, v) ==
  CASE conv \in {"last1", "full_last1", "skip3_last1"} -> Len(v)
    [] conv = "first2" -> 1
    [] conv = "full_at2_2" -> 3
    [] conv = "first9_at9" -> 10
    [] conv \in {"last2", "full_last2"} -> Len(v) - 1
    [] conv = "first1" -> 1
    [] conv = "last1_of_9" -> 9
CheckSlice(conv, v) == SubSeq(v, CheckLo(conv, v), CheckLo(conv, v) + NCheck(conv) - 1)
WithCheck(conv, v, chk) ==  \* v with its check slice replaced
  SubSeq(v, 1, CheckLo(conv, v) - 1) \o chk \o SubSeq(v, CheckLo(conv, v) + NCheck(conv), Len(v))

(* generic slice convention (binding data in the event): b = <<pa, pb, ck, cn>>, 0-based; pb <= 0 and ck < 0 count from the end *)
GPb(e) == IF e.b[2] <= 0 THEN Len(e.v) + e.b[2] ELSE e.b[2]
GCk(e) == IF e.b[3] < 0 THEN Len(e.v) + e.b[3] ELSE e.b[3]
(* "cat": the generator is given a concatenation of slices of v (e.pl = sequence of <<a, b>>, 0-based, b <= 0 from the end),   *)
(* e.g. the Irish VAT number whose check letter sits between the digits and an optional second letter                        *)
CatPayload(e) == FoldLeft(LAMBDA acc, s : acc \o SubSeq(e.v, s[1] + 1, IF s[2] <= 0 THEN Len(e.v) + s[2] ELSE s[2]), <<>>, e.pl)
PayloadE(e) == CASE e.conv = "gen" -> SubSeq(e.v, e.b[1] + 1, GPb(e))
                 [] e.conv = "cat" -> CatPayload(e)
                 [] OTHER -> Payload(e.conv, e.v)
CheckLoE(e) == IF e.conv \in {"gen", "cat"} THEN GCk(e) + 1 ELSE CheckLo(e.conv, e.v)
NCheckE(e) == IF e.conv \in {"gen", "cat"} THEN e.b[4] ELSE NCheck(e.conv)
CheckSliceE(e) == SubSeq(e.v, CheckLoE(e), CheckLoE(e) + NCheckE(e) - 1)
WithCheckE(e, chk) == SubSeq(e.v, 1, CheckLoE(e) - 1) \o chk \o SubSeq(e.v, CheckLoE(e) + NCheckE(e), Len(e.v))

IsStrRet(r) == r.k = "ret" /\ r.t = "str"
(* documented alternative check characters: formats whose generator returns BOTH admissible check characters (e.either:     *)
(* es.cif, pe.cui -- "returns both the number and character check digit candidates"): the candidates are e.r.v / e.g          *)
Occurs(ch, s) == \E i \in 1..Len(s) : s[i] = ch

M1(e) == e.kind = "p1" => e.arg = PayloadE(e)
P1(e) == e.kind = "p1" => (IsStrRet(e.r) /\ IF e.either THEN NCheckE(e) = 1 /\ Occurs(CheckSliceE(e)[1], e.r.v)
                                                     ELSE e.r.v = CheckSliceE(e))
M2(e) == e.kind = "p2" => (/\ e.pos \in 0..(NCheckE(e) - 1)
                           /\ e.ed = [e.v EXCEPT ![CheckLoE(e) + e.pos] = e.alt]
                           /\ e.alt # e.v[CheckLoE(e) + e.pos])
P2(e) == e.kind = "p2" => (~e.acc \/ (e.either /\ Occurs(e.alt, e.g)))
M3(e) == e.kind = "p3" => (IsStrRet(e.gen) => e.ed = WithCheckE(e, e.gen.v))
(* a generator that raises, or returns something that is not a check slice (e.g. '10' when the  *)
(* payload has no valid check digit), means the payload was not well-formed: P3 says nothing    *)
(* only the format's own check (raised in the module itself or in the generic algorithm it     *)
(* delegates to) counts: a checksum error of an embedded number (the national account number   *)
(* inside an IBAN) means the payload was not well-formed                                       *)
AlgorithmModules == {"luhn", "verhoeff", "damm", "iso7064.mod_11_2", "iso7064.mod_11_10", "iso7064.mod_37_2",
                     "iso7064.mod_37_36", "iso7064.mod_97_10"}
P3(e) == (e.kind = "p3" /\ IsStrRet(e.gen) /\ Len(e.gen.v) = NCheckE(e)
          /\ (e.sitemod = e.m \/ e.sitemod \in AlgorithmModules))
           => ~(\E i \in 1..Len(e.r.mro) : e.r.mro[i] = "stdnum.exceptions.InvalidChecksum")
ClauseNames == <<"M1", "P1", "M2", "P2", "M3", "P3">>
Clauses(e) == [M1 |-> M1(e), P1 |-> P1(e), M2 |-> M2(e), P2 |-> P2(e), M3 |-> M3(e), P3 |-> P3(e)]
Failing(e) == LET c == Clauses(e) IN SelectSeq(ClauseNames, LAMBDA n : ~c[n])

Init == l = 1 /\ nrej = 0
Step == /\ l <= Len(Trace)
        /\ LET e == Trace[l]  bad == Failing(e)
           IN IF bad = <<>> THEN nrej' = nrej
              ELSE nrej' = nrej + 1 /\ PrintT(<<"REJ", e.tid, l, bad>>)
        /\ l' = l + 1
Spec == Init /\ [][Step]_<<l, nrej>>
Accepted == /\ TLCGet("stats").diameter - 1 = Len(Trace)
            /\ PrintT(<<"DONE", Len(Trace), TLCGet("stats").diameter - 1>>)
=============================================================================
