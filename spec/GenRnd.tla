------------------------------- MODULE GenRnd -------------------------------
EXTENDS Inputs
(* simulation-friendly variant: one random successor per step                 *)
NextR == Len(script) < MaxDepth /\ script' = Append(script, RandomElement(Edits))
SpecR == Init /\ [][NextR]_script
EmitFull == Len(script) < MaxDepth \/ PrintT(<<"SCRIPT", script>>)
=============================================================================
