---------------------------- MODULE Trace_Convert ----------------------------
EXTENDS Convert, Json, IOUtils
Trace == ndJsonDeserialize(IOEnv.TRACE_FILE)
VARIABLES l, nrej, tid0, dv0
None0 == [k |-> "none", t |-> "", v |-> <<>>]
DV0(e) == IF e.tid = tid0 THEN dv0 ELSE None0
ClauseNames == <<"K0", "K1", "K2", "K3", "K4">>
Clauses(e) == [K0 |-> K0(e), K1 |-> K1(e), K2 |-> K2(e), K3 |-> K3(e), K4 |-> K4(e, DV0(e))]
Failing(e) == LET c == Clauses(e) IN SelectSeq(ClauseNames, LAMBDA n : ~c[n])
Init == l = 1 /\ nrej = 0 /\ tid0 = 0 /\ dv0 = None0
Step == /\ l <= Len(Trace)
        /\ LET e == Trace[l]  bad == Failing(e)
           IN /\ IF bad = <<>> THEN nrej' = nrej ELSE nrej' = nrej + 1 /\ PrintT(<<"REJ", e.tid, l, bad>>)
              /\ tid0' = e.tid
              /\ dv0' = IF e.tid = tid0 THEN dv0 ELSE [k |-> e.dv.k, t |-> e.dv.t, v |-> e.dv.v]
        /\ l' = l + 1
Spec == Init /\ [][Step]_<<l, nrej, tid0, dv0>>
Accepted == /\ TLCGet("stats").diameter - 1 = Len(Trace)
            /\ PrintT(<<"DONE", Len(Trace), TLCGet("stats").diameter - 1>>)
=============================================================================
