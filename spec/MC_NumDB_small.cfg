SPECIFICATION Spec
CONSTANTS
  MaxTop = 1
  MaxQ = 3
INVARIANT InvLossless
INVARIANT InvNonEmpty
INVARIANT InvShortest
INVARIANT InvUnmatched
INVARIANT InvMergeAll
INVARIANT InvEmpty
CHECK_DEADLOCK FALSE
