------------------------- MODULE MC_ChecksumGenR2L -------------------------
EXTENDS MC_Checksum
VARIABLES vec, h
INSTANCE ChecksumGenR2L WITH Aut <- AutDef
=============================================================================
