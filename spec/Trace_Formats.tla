---------------------------- MODULE Trace_Formats ----------------------------
(* C07 trace validation: validate(x) of the implementation against the          *)
(* transcription: A1 accepted iff Accept(F, Canon(F, x)); A2 the returned value *)
(* is Canon(F, x).  Block events: the check characters the implementation        *)
(* computes for 10^4 consecutive payloads, recomputed here (B1).                 *)
EXTENDS Naturals, Sequences, SequencesExt, FiniteSets, TLC, Json, IOUtils
T == JsonDeserialize(IOEnv.TABLE_FILE)
TablesDef == [isin_cc |-> {T.isin_cc[i] : i \in 1..Len(T.isin_cc)}, isrc_cc |-> {T.isrc_cc[i] : i \in 1..Len(T.isrc_cc)}, iban |-> T.iban]
F == INSTANCE Formats WITH Tables <- TablesDef
Trace == ndJsonDeserialize(IOEnv.TRACE_FILE)
VARIABLES l, nrej
IsStrRet(r) == r.k = "ret" /\ r.t = "str"
A1(e) == e.kind = "val" => (IsStrRet(e.r) <=> F!Accept(e.f, F!Canon(e.f, e.x)))
A2(e) == (e.kind = "val" /\ IsStrRet(e.r)) => e.r.v = F!Canon(e.f, e.x)
(* the documented option convert=True of isbn.validate(): same accept set, the result is the ISBN-13 *)
To13(c) == IF Len(c) = 13 THEN c
           ELSE LET b == <<57, 55, 56>> \o SubSeq(c, 1, 9)
                IN b \o <<48 + ((10 - (F!Sum(LAMBDA i : (IF i % 2 = 1 THEN 1 ELSE 3) * F!D(b[i]), 12) % 10)) % 10)>>
A3(e) == e.kind = "valc" => /\ (IsStrRet(e.r) <=> F!Accept(e.f, F!Canon(e.f, e.x)))
                            /\ (IsStrRet(e.r) => e.r.v = To13(F!Canon(e.f, e.x)))
(* block digests: payload number p (zero filled to width w) for p in lo..lo+n-1; checks[i] the character the code appended *)
Digits(p, w) == [i \in 1..w |-> 48 + ((p \div (10 ^ (w - i))) % 10)]
CheckOf(fmt, body) ==
  CASE fmt = "issn" -> LET r == (11 - (F!Sum(LAMBDA i : (9 - i) * F!D(body[i]), 7) % 11)) % 11 IN IF r = 10 THEN 88 ELSE 48 + r
    [] fmt = "imo" -> 48 + (F!Sum(LAMBDA i : (8 - i) * F!D(body[i]), 6) % 10)
    [] fmt = "ean8" -> 48 + ((10 - (F!Sum(LAMBDA i : (IF i % 2 = 1 THEN 3 ELSE 1) * F!D(body[i]), 7) % 10)) % 10)
B1(e) == e.kind = "block" => \A i \in 1..Len(e.checks) : e.checks[i] = CheckOf(e.f, Digits(e.lo + i - 1, e.w))
ClauseNames == <<"A1", "A2", "A3", "B1">>
Clauses(e) == [A1 |-> A1(e), A2 |-> A2(e), A3 |-> A3(e), B1 |-> B1(e)]
Failing(e) == LET c == Clauses(e) IN SelectSeq(ClauseNames, LAMBDA n : ~c[n])
Init == l = 1 /\ nrej = 0
Step == /\ l <= Len(Trace)
        /\ LET e == Trace[l]  bad == Failing(e)
           IN IF bad = <<>> THEN nrej' = nrej ELSE nrej' = nrej + 1 /\ PrintT(<<"REJ", e.tid, l, bad>>)
        /\ l' = l + 1
Spec == Init /\ [][Step]_<<l, nrej>>
Accepted == /\ TLCGet("stats").diameter - 1 = Len(Trace)
            /\ PrintT(<<"DONE", Len(Trace), TLCGet("stats").diameter - 1>>)
=============================================================================
