SPECIFICATION Spec
CONSTANT MaxN = 95
INVARIANT Detected
CHECK_DEADLOCK FALSE
