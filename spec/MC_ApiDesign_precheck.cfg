SPECIFICATION Spec
CONSTANTS
  Variant = "precheck"
  MaxLen = 3
  MaxY = 3
INVARIANT FixedPoint
INVARIANT NoEdgeSpace
INVARIANT CompactDetermined
CHECK_DEADLOCK FALSE
