------------------------------- MODULE Formats -------------------------------
(* C07: the international identifier formats, transcribed from their standards  *)
(* (ISO 2108 ISBN, GS1 General Specifications EAN/GTIN, ISO 3297 ISSN,          *)
(* ISO 10957 ISMN, ISO 6166 ISIN, 3GPP TS 23.003 IMEI, ISO 11649, ISO 27729     *)
(* ISNI, ISO 17442 LEI, GRid, CUSIP, SEDOL, FIGI, IMO numbers, CAS registry     *)
(* numbers, ISO 9362 BIC, ISO 3901 ISRC).  For each format F:                   *)
(*      Canon(F, x)   the canonical form of a presentation x (separators the    *)
(*                    standard allows removed, surrounding whitespace dropped,  *)
(*                    upper case, documented prefixes removed)                  *)
(*      Accept(F, c)  whether the canonical form c is a valid identifier        *)
(* Registry tables (ISO 3166 country lists of ISIN / ISRC) are data (Tables).   *)
(* Inputs are ASCII (other characters are C14/C15 territory).                   *)
EXTENDS Text, TLC

CONSTANT Tables        \* [isin_cc, isrc_cc: sets of 2-letter codes (code points); iban: sequence of [cc, tokens <<n, type>>]]

D(c) == c - 48
Sum(f(_), n) == FoldLeft(LAMBDA a, i : a + f(i), 0, [i \in 1..n |-> i])
DigitSum(n) == (n \div 10) + (n % 10)          \* for n < 100

Del(F) == CASE F \in {"issn", "ean", "isbn", "imei", "isni", "lei", "grid", "bic", "isrc"} -> {32, 45}
            [] F \in {"ismn", "iban"} -> {32, 45, 46}
            [] F = "iso11649" -> {32, 45, 46, 44, 47, 58}
            [] F \in {"imo", "cusip", "sedol", "figi", "isin", "casrn"} -> {32}
            [] OTHER -> {}
Base(F, x) == LET c == Strip(Delete(x, Del(F))) IN IF F \in {"ean", "casrn"} THEN c ELSE UpperAscii(c)
Canon(F, x) ==
  LET c == Base(F, x)
  IN CASE F = "imo" -> IF StartsWith(c, <<73, 77, 79>>) THEN SubSeq(c, 4, Len(c)) ELSE c
       [] F = "grid" -> IF StartsWith(c, <<71, 82, 73, 68, 58>>) THEN SubSeq(c, 6, Len(c)) ELSE c
       [] F = "isbn" -> IF Len(c) = 9 THEN <<48>> \o c ELSE c                    \* nine-digit SBN
       [] F = "casrn" -> IF (\E i \in 1..Len(c) : c[i] = 45) \/ Len(c) < 3 THEN c
                         ELSE SubSeq(c, 1, Len(c) - 3) \o <<45>> \o SubSeq(c, Len(c) - 2, Len(c) - 1) \o <<45>> \o <<c[Len(c)]>>
       [] OTHER -> c

(* ---- check digit computations ---- *)
EanOK(c) == IsDigits(c) /\ (Sum(LAMBDA i : (IF (Len(c) - i) % 2 = 0 THEN 1 ELSE 3) * D(c[i]), Len(c)) % 10 = 0)
Mod11Val(ch) == IF ch = 88 THEN 10 ELSE D(ch)
Isbn10OK(c) == /\ Len(c) = 10 /\ IsDigits(SubSeq(c, 1, 9)) /\ (IsDigitCp(c[10]) \/ c[10] = 88)
               /\ Sum(LAMBDA i : (11 - i) * Mod11Val(c[i]), 10) % 11 = 0
IssnOK(c) == /\ Len(c) = 8 /\ IsDigits(SubSeq(c, 1, 7)) /\ (IsDigitCp(c[8]) \/ c[8] = 88)
             /\ Sum(LAMBDA i : (9 - i) * Mod11Val(c[i]), 8) % 11 = 0
LuhnOK(c) == IsDigits(c) /\ (Sum(LAMBDA i : IF (Len(c) - i) % 2 = 1 THEN DigitSum(2 * D(c[i])) ELSE D(c[i]), Len(c)) % 10 = 0)
Mod112OK(c) == FoldLeft(LAMBDA q, ch : (2 * q + Mod11Val(ch)) % 11, 0, c) = 1
V36(ch) == IF IsDigitCp(ch) THEN ch - 48 ELSE ch - 55
IsAlnumUpper(c) == \A i \in 1..Len(c) : IsDigitCp(c[i]) \/ IsUpperCp(c[i])
Mod97(c) == FoldLeft(LAMBDA q, ch : IF IsDigitCp(ch) THEN (10 * q + D(ch)) % 97 ELSE (100 * q + V36(ch)) % 97, 0, c)
Mod3736OK(c) == FoldLeft(LAMBDA q, ch : ((((IF q = 0 THEN 36 ELSE q) * 2) % 37) + V36(ch)) % 36, 18, c) = 1
(* decimal expansion of a two-digit-capable value list, then Luhn-style digit sums *)
Expand(c) == FoldLeft(LAMBDA a, ch : IF V36(ch) < 10 THEN Append(a, V36(ch)) ELSE a \o <<V36(ch) \div 10, V36(ch) % 10>>, <<>>, c)
IsinCheck(body) == LET e == Expand(body)  n == Len(e)
                       s == Sum(LAMBDA i : IF (n - i) % 2 = 0 THEN DigitSum(2 * e[i]) ELSE e[i], n)
                   IN (10 - (s % 10)) % 10
CusipVal(ch) == IF ch = 42 THEN 36 ELSE IF ch = 64 THEN 37 ELSE IF ch = 35 THEN 38 ELSE V36(ch)
CusipCheck(body) == (10 - (Sum(LAMBDA i : DigitSum((IF i % 2 = 1 THEN 1 ELSE 2) * CusipVal(body[i])), Len(body)) % 10)) % 10
FigiCheck(body) == (10 - (Sum(LAMBDA i : DigitSum((IF i % 2 = 1 THEN 1 ELSE 2) * V36(body[i])), Len(body)) % 10)) % 10
Vowels == {65, 69, 73, 79, 85}
IsSedolCp(ch) == IsDigitCp(ch) \/ (IsUpperCp(ch) /\ ch \notin Vowels)
SedolW == <<1, 3, 1, 7, 3, 9, 1>>

(* IBAN (ISO 13616): the BBAN follows the registered structure: tokens <<n, type>> with type n (digits), *)
(* a (upper case letters), c (alphanumeric)                                                            *)
TokOK(ty, ch) == IF ty = 110 THEN IsDigitCp(ch) ELSE IF ty = 97 THEN IsUpperCp(ch) ELSE (IsDigitCp(ch) \/ IsUpperCp(ch))
BbanOK(b, toks) ==
  LET total == FoldLeft(LAMBDA a, t : a + t[1], 0, toks)
      ends == FoldLeft(LAMBDA a, t : Append(a, (IF a = <<>> THEN 0 ELSE a[Len(a)]) + t[1]), <<>>, toks)
  IN /\ Len(b) = total
     /\ \A k \in 1..Len(toks) : \A i \in ((IF k = 1 THEN 0 ELSE ends[k - 1]) + 1)..ends[k] : TokOK(toks[k][2], b[i])

Accept(F, c) ==
  CASE F = "ean" -> Len(c) \in {8, 12, 13, 14} /\ EanOK(c)
    [] F = "isbn" -> Isbn10OK(c) \/ (Len(c) = 13 /\ EanOK(c) /\ SubSeq(c, 1, 3) \in {<<57, 55, 56>>, <<57, 55, 57>>})
    [] F = "issn" -> IssnOK(c)
    [] F = "ismn" -> \/ (Len(c) = 10 /\ c[1] = 77 /\ EanOK(<<57, 55, 57, 48>> \o SubSeq(c, 2, 10)))
                     \/ (Len(c) = 13 /\ SubSeq(c, 1, 4) = <<57, 55, 57, 48>> /\ EanOK(c))
    [] F = "imei" -> IsDigits(c) /\ (Len(c) \in {14, 16} \/ (Len(c) = 15 /\ LuhnOK(c)))
    [] F = "isni" -> Len(c) = 16 /\ IsDigits(SubSeq(c, 1, 15)) /\ (IsDigitCp(c[16]) \/ c[16] = 88) /\ Mod112OK(c)
    [] F = "lei" -> Len(c) = 20 /\ IsAlnumUpper(c) /\ IsDigits(SubSeq(c, 19, 20)) /\ Mod97(c) = 1
    [] F = "iso11649" -> /\ Len(c) >= 5 /\ Len(c) <= 25 /\ SubSeq(c, 1, 2) = <<82, 70>> /\ IsAlnumUpper(c)
                         /\ IsDigits(SubSeq(c, 3, 4)) /\ Mod97(SubSeq(c, 5, Len(c)) \o SubSeq(c, 1, 4)) = 1
    [] F = "grid" -> Len(c) = 18 /\ IsAlnumUpper(c) /\ Mod3736OK(c)
    [] F = "cusip" -> /\ Len(c) = 9 /\ (\A i \in 1..9 : (IsDigitCp(c[i]) \/ IsUpperCp(c[i]) \/ c[i] \in {42, 64, 35}))
                      /\ IsDigitCp(c[9]) /\ D(c[9]) = CusipCheck(SubSeq(c, 1, 8))
    [] F = "sedol" -> /\ Len(c) = 7 /\ (\A i \in 1..7 : IsSedolCp(c[i]))
                      /\ (IsDigitCp(c[1]) => IsDigits(c))               \* old style numbers are all numeric
                      /\ IsDigitCp(c[7])
                      /\ Sum(LAMBDA i : SedolW[i] * V36(c[i]), 7) % 10 = 0
    [] F = "figi" -> /\ Len(c) = 12 /\ (\A i \in 1..12 : IsSedolCp(c[i]))
                     /\ ~IsDigitCp(c[1]) /\ ~IsDigitCp(c[2])
                     /\ SubSeq(c, 1, 2) \notin {<<66, 83>>, <<66, 77>>, <<71, 71>>, <<71, 66>>, <<71, 72>>, <<75, 89>>, <<86, 71>>}
                     /\ c[3] = 71 /\ IsDigitCp(c[12]) /\ D(c[12]) = FigiCheck(SubSeq(c, 1, 11))
    [] F = "isin" -> /\ Len(c) = 12 /\ IsAlnumUpper(c) /\ SubSeq(c, 1, 2) \in Tables.isin_cc
                     /\ IsDigitCp(c[12]) /\ D(c[12]) = IsinCheck(SubSeq(c, 1, 11))
    [] F = "iban" -> /\ Len(c) >= 5 /\ IsAlnumUpper(c) /\ IsDigits(SubSeq(c, 3, 4))
                     /\ Mod97(SubSeq(c, 5, Len(c)) \o SubSeq(c, 1, 4)) = 1
                     /\ \E k \in 1..Len(Tables.iban) :
                           /\ Tables.iban[k].cc = SubSeq(c, 1, 2)
                           /\ BbanOK(SubSeq(c, 5, Len(c)), Tables.iban[k].tokens)
    [] F = "imo" -> Len(c) = 7 /\ IsDigits(c) /\ Sum(LAMBDA i : (8 - i) * D(c[i]), 6) % 10 = D(c[7])
    [] F = "casrn" -> LET n == Len(c) IN
                      /\ n >= 7 /\ n <= 12 /\ c[n - 1] = 45 /\ c[n - 4] = 45
                      /\ IsDigits(SubSeq(c, 1, n - 5)) /\ c[1] # 48 /\ n - 5 >= 2 /\ n - 5 <= 7
                      /\ IsDigits(SubSeq(c, n - 3, n - 2)) /\ IsDigitCp(c[n])
                      /\ LET ds == SubSeq(c, 1, n - 5) \o SubSeq(c, n - 3, n - 2)  k == Len(ds)
                         IN Sum(LAMBDA i : (k + 1 - i) * D(ds[i]), k) % 10 = D(c[n])
    [] F = "bic" -> /\ Len(c) \in {8, 11} /\ (\A i \in 1..6 : IsUpperCp(c[i])) /\ (\A j \in 7..Len(c) : (IsUpperCp(c[j]) \/ IsDigitCp(c[j])))
    [] F = "isrc" -> /\ Len(c) = 12 /\ IsUpperCp(c[1]) /\ IsUpperCp(c[2]) /\ SubSeq(c, 1, 2) \in Tables.isrc_cc
                     /\ (\A i \in 3..5 : (IsUpperCp(c[i]) \/ IsDigitCp(c[i]))) /\ IsDigits(SubSeq(c, 6, 12))
=============================================================================
