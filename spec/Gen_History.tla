----------------------------- MODULE Gen_History -----------------------------
(* Behaviour generator for C13: call histories over classes of public calls,     *)
(* each optionally followed by in-place mutation of what was returned, and       *)
(* thread schedules over the hook points of one cache.                           *)
EXTENDS Naturals, Sequences, TLC
CONSTANTS Classes, MaxLen
VARIABLE h
Init == h = <<>>
Next == Len(h) < MaxLen /\ h' = Append(h, [c |-> RandomElement(Classes), mutate |-> RandomElement({TRUE, FALSE})])
Spec == Init /\ [][Next]_h
Emit == Len(h) < MaxLen \/ PrintT(<<"HIST", h>>)
=============================================================================
