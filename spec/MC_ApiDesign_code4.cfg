SPECIFICATION Spec
CONSTANTS
  Variant = "code"
  MaxLen = 4
  MaxY = 1
INVARIANT FixedPoint
INVARIANT NoEdgeSpace
INVARIANT CompactDetermined
CHECK_DEADLOCK FALSE
