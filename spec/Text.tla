------------------------------- MODULE Text -------------------------------
(* Text as sequences of Unicode code points, and the handful of string         *)
(* operations the library's contracts talk about.  ASCII classes are defined   *)
(* here; facts about non-ASCII code points are environment facts that a trace  *)
(* carries (see Unicode facts in Clean.tla).                                   *)
EXTENDS Naturals, Sequences, FiniteSets, SequencesExt, Functions

CodePoint == 0..1114111

IsAsciiCp(c) == c < 128
IsAscii(s) == \A i \in 1..Len(s) : s[i] < 128

Digit0 == 48
IsDigitCp(c) == c >= 48 /\ c <= 57
IsUpperCp(c) == c >= 65 /\ c <= 90
IsLowerCp(c) == c >= 97 /\ c <= 122
IsAlphaCp(c) == IsUpperCp(c) \/ IsLowerCp(c)
IsAlnumCp(c) == IsDigitCp(c) \/ IsAlphaCp(c)
IsDigits(s) == Len(s) > 0 /\ \A i \in 1..Len(s) : IsDigitCp(s[i])
AllIn(s, S) == \A i \in 1..Len(s) : s[i] \in S

UpperCp(c) == IF IsLowerCp(c) THEN c - 32 ELSE c
LowerCp(c) == IF IsUpperCp(c) THEN c + 32 ELSE c
UpperAscii(s) == [i \in 1..Len(s) |-> UpperCp(s[i])]
LowerAscii(s) == [i \in 1..Len(s) |-> LowerCp(s[i])]

(* The characters Python's str.strip() removes (str.isspace()).               *)
PySpace == {9, 10, 11, 12, 13, 28, 29, 30, 31, 32, 133, 160, 5760,
            8192, 8193, 8194, 8195, 8196, 8197, 8198, 8199, 8200, 8201, 8202,
            8232, 8233, 8239, 8287, 12288}

NoEdgeSpace(s) == s = <<>> \/ (s[1] \notin PySpace /\ s[Len(s)] \notin PySpace)

Delete(s, del) == SelectSeq(s, LAMBDA c : c \notin del)

RECURSIVE LStrip(_), RStrip(_)
LStrip(s) == IF s # <<>> /\ s[1] \in PySpace THEN LStrip(Tail(s)) ELSE s
RStrip(s) == IF s # <<>> /\ s[Len(s)] \in PySpace THEN RStrip(SubSeq(s, 1, Len(s) - 1)) ELSE s
Strip(s) == RStrip(LStrip(s))

StartsWith(s, p) == Len(s) >= Len(p) /\ SubSeq(s, 1, Len(p)) = p
EndsWith(s, p) == Len(s) >= Len(p) /\ SubSeq(s, Len(s) - Len(p) + 1, Len(s)) = p
DropPrefix(s, n) == SubSeq(s, n + 1, Len(s))
Take(s, n) == SubSeq(s, 1, IF n < Len(s) THEN n ELSE Len(s))

(* value of an ASCII digit / base-36 character; -1 when it has none            *)
DigitVal(c) == IF IsDigitCp(c) THEN c - 48 ELSE -1
AlnumVal(c) == IF IsDigitCp(c) THEN c - 48
               ELSE IF IsUpperCp(c) THEN c - 55
               ELSE IF IsLowerCp(c) THEN c - 87 ELSE -1
DigitCp(d) == 48 + d
AlnumCp(v) == IF v < 10 THEN 48 + v ELSE 55 + v

(* HasSlice(s, sub): sub occurs as a contiguous slice of s                     *)
HasSlice(s, sub) ==
  \E i \in 1..(Len(s) - Len(sub) + 1) : SubSeq(s, i, i + Len(sub) - 1) = sub

(* x mod m of a decimal digit string, digit by digit (TLC ints are 32 bit)     *)
ModOfDigits(s, m) == FoldLeft(LAMBDA acc, c : (acc * 10 + (c - 48)) % m, 0, s)

(* lexicographic order on code point sequences (Python's str comparison)      *)
RECURSIVE LexLeq(_, _)
LexLeq(a, b) == IF a = <<>> THEN TRUE
                ELSE IF b = <<>> THEN FALSE
                ELSE IF a[1] < b[1] THEN TRUE
                ELSE IF a[1] > b[1] THEN FALSE
                ELSE LexLeq(Tail(a), Tail(b))

ZFill(s, n) == IF Len(s) >= n THEN s ELSE [i \in 1..(n - Len(s)) |-> 48] \o s

Str(s) == s  \* documentation marker: literal code point sequence
=============================================================================
