----------------------------- MODULE ChecksumPA -----------------------------
(* Product automaton: two copies of a check digit automaton read the same      *)
(* string except for ONE single-character substitution (same kind) or ONE      *)
(* swap of two adjacent different characters.  Because the automaton is        *)
(* finite, reachability covers strings of EVERY length.                        *)
(* h1, h2 record the two strings (reading order); they are hidden by the VIEW  *)
(* so the state space stays finite and TLC's counter-example shows the strings.*)
EXTENDS Naturals, Sequences, FiniteSets, TLC

CONSTANT Aut

Q == 0..(Aut.nq - 1)
A == 0..(Aut.na - 1)
D(q, c) == Aut.delta[q + 1][c + 1]
AccSet == {Aut.acc[i] : i \in 1..Len(Aut.acc)}
Acc(q) == q \in AccSet
Kind(c) == Aut.kind[c + 1]
SwapOK(c) == Aut.swapok[c + 1]
CheckSyms == {Aut.check[i] : i \in 1..Len(Aut.check)}

VARIABLES q1, q2, phase, h1, h2
vars == <<q1, q2, phase, h1, h2>>
view == <<q1, q2, phase>>

Init == q1 = Aut.q0 /\ q2 = Aut.q0 /\ phase = "same" /\ h1 = <<>> /\ h2 = <<>>

Same == \E c \in A : /\ q1' = D(q1, c) /\ q2' = D(q2, c) /\ UNCHANGED phase
                     /\ h1' = Append(h1, c) /\ h2' = Append(h2, c)

Subst == /\ phase = "same"
         /\ \E a \in A, b \in A :
              /\ a # b /\ Kind(a) = Kind(b) /\ Kind(a) # 2
              /\ q1' = D(q1, a) /\ q2' = D(q2, b)
              /\ h1' = Append(h1, a) /\ h2' = Append(h2, b)
         /\ phase' = "subst"

Swap == /\ phase = "same"
        /\ \E a \in A, b \in A :
              /\ a # b /\ SwapOK(a) /\ SwapOK(b)
              /\ q1' = D(D(q1, a), b) /\ q2' = D(D(q2, b), a)
              /\ h1' = h1 \o <<a, b>> /\ h2' = h2 \o <<b, a>>
              /\ phase' = IF {a, b} = {0, Aut.na - 1} THEN "swap_ends" ELSE "swap"

Next == Same \/ Subst \/ Swap
Spec == Init /\ [][Next]_vars

(* a valid string with one same-kind character changed is not valid            *)
SubstDetected == phase = "subst" => ~(Acc(q1) /\ Acc(q2))
(* Verhoeff, Damm, pure ISO 7064: every adjacent transposition is rejected      *)
SwapDetected == (Aut.swap /\ phase \in {"swap", "swap_ends"}) => ~(Acc(q1) /\ Acc(q2))
(* Luhn: misses exactly the swap of the first and last alphabet symbol          *)
LuhnSwapOthersDetected == (Aut.luhn /\ phase = "swap") => ~(Acc(q1) /\ Acc(q2))
LuhnSwapEndsMissed == (Aut.luhn /\ phase = "swap_ends") => (Acc(q1) <=> Acc(q2))
(* left-to-right single check character schemes: from every payload state       *)
(* exactly one check character leads to acceptance                              *)
GenUniqueL2R == (Aut.dir = "l2r" /\ Aut.ncheck = 1 /\ phase = "same")
                  => Cardinality({c \in CheckSyms : Acc(D(q1, c))}) = 1
(* two check digits (97-10): some pair of check digits leads to acceptance      *)
GenExists2 == (Aut.ncheck = 2 /\ phase = "same")
                  => \E c1 \in CheckSyms, c2 \in CheckSyms : Acc(D(D(q1, c1), c2))
(* sanity: every state reads every symbol (total automaton)                     *)
TypeOK == q1 \in Q /\ q2 \in Q
=============================================================================
