--------------------------- MODULE IsValidDesign ---------------------------
(* Design-level model of the idiom every module uses:                          *)
(*     def is_valid(x):  try: return bool(validate(x))                         *)
(*                       except ValidationError: return False                  *)
(* validate's outcome is abstract.  The contract of C01 (is_valid never raises, *)
(* returns exactly True/False, and is True precisely when validate returns)    *)
(* holds for this idiom iff validate never returns a falsy value and never     *)
(* raises anything but a ValidationError -- the two ways it fails in practice  *)
(* (gs1_128.validate('') = ''; ValueError from int()).  Variant "plain" lets    *)
(* validate return the empty string, "leak" lets it raise a foreign exception,  *)
(* "forgot_option" makes is_valid call validate without the caller's option.    *)
EXTENDS Naturals, TLC
CONSTANT Variant
Outcomes == {"ret_nonempty", "raise_VE"} \cup (IF Variant = "plain" THEN {"ret_empty"} ELSE {})
                                        \cup (IF Variant = "leak" THEN {"raise_other"} ELSE {})
VARIABLES vo, vo_default, iv
Init == vo \in Outcomes /\ vo_default \in Outcomes /\ iv = "unset"
(* what validate does with the caller's option (vo) and with the default option (vo_default) *)
Used == IF Variant = "forgot_option" THEN vo_default ELSE vo
Call == /\ iv = "unset"
        /\ iv' = (CASE Used = "ret_nonempty" -> "True" [] Used = "ret_empty" -> "False"
                     [] Used = "raise_VE" -> "False" [] OTHER -> "raised")
        /\ UNCHANGED <<vo, vo_default>>
Spec == Init /\ [][Call]_<<vo, vo_default, iv>> 
V2 == iv \in {"unset", "True", "False"}
V3 == iv # "unset" => ((iv = "True") <=> (vo \in {"ret_nonempty", "ret_empty"}))
=============================================================================
