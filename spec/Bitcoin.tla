------------------------------- MODULE Bitcoin -------------------------------
(* Bitcoin addresses: Base58Check (P2PKH / P2SH: version byte + 20 byte hash +  *)
(* first 4 bytes of the double SHA-256) and Bech32 segregated witness addresses *)
(* (BIP 173).                                                                   *)
EXTENDS Sha256, Text

B58 == <<49,50,51,52,53,54,55,56,57,65,66,67,68,69,70,71,72,74,75,76,77,78,80,81,82,83,84,85,86,87,88,89,90,
         97,98,99,100,101,102,103,104,105,106,107,109,110,111,112,113,114,115,116,117,118,119,120,121,122>>
B58Val(c) == IF \E i \in 1..58 : B58[i] = c THEN (CHOOSE i \in 1..58 : B58[i] = c) - 1 ELSE -1
B32 == <<113,112,122,114,121,57,120,56,103,102,50,116,118,100,119,48,115,51,106,110,53,52,107,104,99,101,54,109,117,97,55,108>>
B32Val(c) == IF \E i \in 1..32 : B32[i] = c THEN (CHOOSE i \in 1..32 : B32[i] = c) - 1 ELSE -1

Canon(x) == LET c == Strip(Delete(x, {32}))
            IN IF Len(c) >= 3 /\ LowerAscii(SubSeq(c, 1, 3)) = <<98, 99, 49>> THEN LowerAscii(c) ELSE c

(* big number (little endian bytes) * 58 + d *)
MulAdd(bytes, d) ==
  LET r == FoldLeft(LAMBDA acc, b : LET t == b * 58 + acc.carry IN [out |-> Append(acc.out, t % 256), carry |-> t \div 256],
                    [out |-> <<>>, carry |-> d], bytes)
  IN IF r.carry = 0 THEN r.out ELSE IF r.carry < 256 THEN Append(r.out, r.carry) ELSE r.out \o <<r.carry % 256, r.carry \div 256>>
StripHighZeros(le) == LET nz == {i \in 1..Len(le) : le[i] # 0} IN IF nz = {} THEN <<>> ELSE SubSeq(le, 1, CHOOSE i \in nz : \A j \in nz : j <= i)
LeadingOnes(s) == IF \E i \in 1..Len(s) : s[i] # 49 THEN (CHOOSE i \in 1..Len(s) : s[i] # 49 /\ \A j \in 1..(i - 1) : s[j] = 49) - 1 ELSE Len(s)
B58Decode(s) ==      \* big endian bytes; the library yields at least one byte for the numeric part
  LET le == StripHighZeros(FoldLeft(LAMBDA acc, c : MulAdd(acc, B58Val(c)), <<>>, s))
      be == Reverse(IF le = <<>> THEN <<0>> ELSE le)
  IN [i \in 1..LeadingOnes(s) |-> 0] \o be
Base58OK(c) == /\ \A i \in 1..Len(c) : B58Val(c[i]) >= 0
               /\ LET a == B58Decode(c)
                  IN /\ Len(a) = 25
                     /\ SubSeq(Sha256(Sha256(SubSeq(a, 1, 21))), 1, 4) = SubSeq(a, 22, 25)

Gen == <<996825010, 642813549, 513874426, 1027748829, 705979059>>
PolyStep(chk, v) ==
  LET top == chk \div 33554432
      c0 == ((chk % 33554432) * 32) ^^ v
  IN FoldLeft(LAMBDA c, i : IF (top \div (2 ^ (i - 1))) % 2 = 1 THEN c ^^ Gen[i] ELSE c, c0, <<1, 2, 3, 4, 5>>)
Polymod(vals) == FoldLeft(PolyStep, 1, vals)
HrpExpand == <<3, 3, 0, 2, 3>>         \* "bc"
(* 5 bit groups -> bytes; [ok, bytes]: at most 4 padding bits, all zero *)
ConvertBits(data) ==
  LET r == FoldLeft(LAMBDA a, v : LET acc == (a.acc * 32 + v)  bits == a.bits + 5
                                 IN IF bits >= 8 THEN [acc |-> acc % (2 ^ (bits - 8)), bits |-> bits - 8, out |-> Append(a.out, acc \div (2 ^ (bits - 8)))]
                                    ELSE [acc |-> acc, bits |-> bits, out |-> a.out],
                    [acc |-> 0, bits |-> 0, out |-> <<>>], data)
  IN [ok |-> r.bits < 5 /\ r.acc = 0, bytes |-> r.out]
Bech32OK(c) ==
  /\ Len(c) >= 11 /\ Len(c) <= 90 /\ SubSeq(c, 1, 3) = <<98, 99, 49>>
  /\ \A i \in 4..Len(c) : B32Val(c[i]) >= 0
  /\ LET data == [i \in 1..(Len(c) - 3) |-> B32Val(c[i + 3])]
     IN /\ Polymod(HrpExpand \o data) = 1
        /\ Len(data) >= 7
        /\ data[1] <= 16
        /\ LET cb == ConvertBits(SubSeq(data, 2, Len(data) - 6))
           IN /\ cb.ok /\ Len(cb.bytes) >= 2 /\ Len(cb.bytes) <= 40
              /\ (data[1] = 0 => Len(cb.bytes) \in {20, 32})
(* BIP 173: a decoder must not accept mixed case *)
MixedCase(x) == (\E i \in 1..Len(x) : IsUpperCp(x[i])) /\ (\E i \in 1..Len(x) : IsLowerCp(x[i]))
Accept(x) == LET c == Canon(x)
             IN IF c # <<>> /\ c[1] \in {49, 51} THEN Base58OK(c)
                ELSE IF Len(c) >= 3 /\ SubSeq(c, 1, 3) = <<98, 99, 49>> THEN Bech32OK(c) /\ ~MixedCase(Strip(Delete(x, {32})))
                ELSE FALSE
=============================================================================
