SPECIFICATION Spec
VIEW view
INVARIANT GenUniqueR2L
CHECK_DEADLOCK FALSE
