----------------------------- MODULE ApiFormat -----------------------------
(* C04: format() preserves the identity of a valid number.                     *)
(* Session steps:  validate(x) ; format(x, o) ; validate(format(x, o)) ;       *)
(*                 format(validate(x), o).                                     *)
(* The four normalisations the property documents are written out here.        *)
EXTENDS Api

IndexOf(s, c) == IF \E i \in 1..Len(s) : s[i] = c
                 THEN CHOOSE i \in 1..Len(s) : s[i] = c /\ \A j \in 1..(i - 1) : s[j] # c
                 ELSE 0

(* ISMN: validate() keeps a 10-character ISMN, format() shows the 13-digit form *)
IsmnNorm(v) == IF Len(v) = 10 THEN <<57, 55, 57, 48>> \o SubSeq(v, 2, 10) ELSE v

(* ISIL: format() upper-cases the agency prefix (the part before the first '-') *)
IsilNorm(v) == LET i == IndexOf(v, 45)
               IN IF i = 0 THEN v ELSE UpperAscii(SubSeq(v, 1, i - 1)) \o SubSeq(v, i, Len(v))

(* ISAN: root(12) episode(4) [check1] [version(8) [check2]]; format() adds the   *)
(* check characters, so numbers are compared on root+episode+version            *)
IsanCore(v) == IF Len(v) = 16 \/ Len(v) = 17 THEN SubSeq(v, 1, 16)
               ELSE IF Len(v) = 24 THEN v
               ELSE IF Len(v) = 25 THEN SubSeq(v, 1, 24)                        \* check2 only
               ELSE IF Len(v) = 26 THEN SubSeq(v, 1, 16) \o SubSeq(v, 18, 25)
               ELSE v

(* documented identity-changing options: isbn convert=True shows the ISBN-13,   *)
(* imei add_check_digit=True appends the Luhn check digit                       *)
EanCheckDigit(s) ==   \* s: 12 digits
  LET sum == FoldLeft(LAMBDA acc, i : acc + (IF i % 2 = 1 THEN 1 ELSE 3) * (s[i] - 48), 0, [i \in 1..Len(s) |-> i])
  IN 48 + ((10 - (sum % 10)) % 10)
Isbn13Of(v) == IF Len(v) = 10
               THEN LET body == <<57, 55, 56>> \o SubSeq(v, 1, 9) IN Append(body, EanCheckDigit(body))
               ELSE v
LuhnDouble(d) == IF 2 * d > 9 THEN 2 * d - 9 ELSE 2 * d
LuhnCheckDigit(s) ==  \* s: payload digits; the check digit will be appended
  LET n == Len(s)
      sum == FoldLeft(LAMBDA acc, i : acc + (IF (n - i) % 2 = 0 THEN LuhnDouble(s[i] - 48) ELSE s[i] - 48), 0, [i \in 1..n |-> i])
  IN 48 + ((10 - (sum % 10)) % 10)
ImeiWithCheck(v) == IF Len(v) = 14 THEN Append(v, LuhnCheckDigit(v)) ELSE v

NormEqOpt(m, o, v, w) ==
  CASE m = "isbn" /\ o \in {"{\"convert\": true}", "{\"convert\": true, \"separator\": \"\"}"} -> w = Isbn13Of(v)
    [] m = "imei" /\ o = "{\"add_check_digit\": true}" -> w = ImeiWithCheck(v)
    [] OTHER -> FALSE
HasOptNorm(m, o) == (m = "isbn" /\ o = "{\"convert\": true}") \/ (m = "imei" /\ o = "{\"add_check_digit\": true}")

NormEq(m, v, w) ==
  CASE m = "ismn" -> w = IsmnNorm(v)
    [] m = "isil" -> w = IsilNorm(v)
    [] m = "isan" -> IsanCore(w) = IsanCore(v)
    [] OTHER      -> w = v          \* includes MEID: validate() drops the check digit on both sides

G0(e, s) == (e.a = "format" /\ IsStrRet(s.v)) => IsStrRet(e.r)
G1(e, s) == (e.a = "validate_f" /\ IsStrRet(s.v) /\ IsStrRet(s.f))
              => (IsStrRet(e.r) /\ IF HasOptNorm(e.m, s.fo) THEN NormEqOpt(e.m, s.fo, s.v.v, e.r.v)
                                                               ELSE NormEq(e.m, s.v.v, e.r.v))
G2(e, s) == (e.a = "format_v" /\ IsStrRet(s.v) /\ IsStrRet(s.f) /\ e.o = s.fo)
              => (IsStrRet(e.r) /\ e.r.v = s.f.v)
=============================================================================
