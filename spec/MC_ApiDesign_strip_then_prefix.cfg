SPECIFICATION Spec
CONSTANTS
  Variant = "strip_then_prefix"
  MaxLen = 4
  MaxY = 1
INVARIANT FixedPoint
INVARIANT NoEdgeSpace
INVARIANT CompactDetermined
CHECK_DEADLOCK FALSE
