SPECIFICATION Spec
INVARIANT Emit
CHECK_DEADLOCK FALSE
CONSTANTS
  MaxDepth = 1
  Ops = {"rep", "ins"}
  PosClasses = {"each"}
  CharClasses = {"ND_ARABIC", "ND_DEVA", "ND_THAI", "ND_OTHER", "ASTRAL_DIGIT", "NO_SUPER", "NO_CIRCLED", "NO_FRACTION",
                 "NL_ROMAN", "HAN_DIGIT", "LATIN_ACC", "GREEK", "CYRILLIC", "FW_LATIN", "CASE_EXPAND", "CASE_SPECIAL",
                 "COMBINING", "L_DIGIT"}
