SPECIFICATION Spec
INVARIANT SelfConsistent
INVARIANT Emit
CHECK_DEADLOCK FALSE
