------------------------------ MODULE Gen_Clean ------------------------------
(* Strings over character classes (all of length <= MaxLen) x delete sets, for  *)
(* the clauses U6..U9 of C14; the driver draws concrete characters per class.   *)
EXTENDS Naturals, Sequences, TLC
CONSTANTS MaxLen, Classes
DelSets == {<<>>, <<"sep">>, <<"space">>, <<"sep", "space", "dot">>, <<"digit">>, <<"sep", "space", "dot", "other", "letter">>}
VARIABLES s, del
Init == s = <<>> /\ del \in DelSets
Next == Len(s) < MaxLen /\ \E c \in Classes : s' = Append(s, c) /\ UNCHANGED del
Spec == Init /\ [][Next]_<<s, del>>
Emit == PrintT(<<"STR", s, del>>)
=============================================================================
