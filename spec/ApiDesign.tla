----------------------------- MODULE ApiDesign -----------------------------
(* Design-level model of a number module's clean-up pipeline, to see which     *)
(* COMPOSITIONS of the primitives the code base uses (delete separators,       *)
(* strip surrounding whitespace, upper-case, drop a country prefix, delegate   *)
(* to an inner validator with its own clean-up) give the contract of           *)
(* C02 (fixed point, no edge whitespace) and C03 (outcome determined by the    *)
(* compact form).  Characters are abstract:                                     *)
(*   "d" digit   "s" separator the module deletes   "t" separator only the      *)
(*   INNER validator deletes   "w" whitespace   "P"/"p" prefix letter upper/lower *)
EXTENDS Naturals, Sequences, SequencesExt, TLC

CONSTANTS Variant, MaxLen, MaxY
Chars == {"d", "s", "t", "w", "P", "p"}
Strs(k) == UNION {[1..n -> Chars] : n \in 0..k}

Del(x, S) == SelectSeq(x, LAMBDA c : c \notin S)
RECURSIVE LS(_), RS(_)
LS(x) == IF x # <<>> /\ x[1] = "w" THEN LS(Tail(x)) ELSE x
RS(x) == IF x # <<>> /\ x[Len(x)] = "w" THEN RS(SubSeq(x, 1, Len(x) - 1)) ELSE x
Strip(x) == RS(LS(x))
Up(x) == [i \in 1..Len(x) |-> IF x[i] = "p" THEN "P" ELSE x[i]]
DropP(x) == IF x # <<>> /\ x[1] = "P" THEN Tail(x) ELSE x

(* the module's compact() *)
Compact(x) ==
  CASE Variant = "strip_then_prefix" -> DropP(Up(Strip(Del(x, {"s"}))))           \* whitespace behind the prefix survives
    [] OTHER -> Strip(DropP(Up(Strip(Del(x, {"s"})))))                            \* the code after the no.mva fix
(* the abstract format: exactly two digits *)
Good(c) == Len(c) = 2 /\ \A i \in 1..2 : c[i] = "d"
Rej == <<"!">>
InnerValidate(c) == LET c2 == Strip(Del(c, {"s", "t"})) IN IF Good(c2) THEN c2 ELSE Rej
Validate(x) ==
  CASE Variant = "inner_strips_more" ->                                            \* outer length check (3), then the inner validator's own result is returned
         LET c == Compact(x) IN IF Len(c) = 3 THEN InnerValidate(c) ELSE Rej
    [] Variant = "strip_then_prefix" ->                                            \* validity judged by an inner validator that cleans up again; the outer form is returned
         IF Good(Strip(Del(Compact(x), {"s"}))) THEN Compact(x) ELSE Rej
    [] Variant = "precheck" ->                                                     \* a test on the raw argument before compact()
         IF \E i \in 1..Len(x) : x[i] = "p" THEN Rej ELSE (IF Good(Compact(x)) THEN Compact(x) ELSE Rej)
    [] OTHER -> IF Good(Compact(x)) THEN Compact(x) ELSE Rej

VARIABLES x, y
Init == x \in Strs(MaxLen) /\ y \in Strs(MaxY)
Next == UNCHANGED <<x, y>>
Spec == Init /\ [][Next]_<<x, y>>

FixedPoint == Validate(x) # Rej => Validate(Validate(x)) = Validate(x)
NoEdgeSpace == Validate(x) # Rej => (Validate(x)[1] # "w" /\ Validate(x)[Len(Validate(x))] # "w")
CompactDetermined == Compact(x) = Compact(y) => Validate(x) = Validate(y)
=============================================================================
