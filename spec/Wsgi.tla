-------------------------------- MODULE Wsgi --------------------------------
(* The bundled online check application as a request/response machine.         *)
(* State: whether the HTML template has been loaded (first request only).      *)
(* Request(q, mode): LoadTemplate (first) ; Parse(q) ; Collect ; Render.        *)
(* The clauses constrain each recorded response:                               *)
(*   Q1 status 200            Q2 content type by mode                          *)
(*   Q3/Q4 the formats listed are exactly those whose is_valid() accepts the   *)
(*         submitted number (recorded independently in the same process)       *)
(*   Q5 the submitted text appears only HTML-escaped                           *)
(*   Q6 the response equals the response to the same request as the first      *)
(*      request of a fresh process (the template cache carries no history)     *)
EXTENDS Text, TLC

Q1(e) == e.status = "200 OK"
Q2(e) == e.ctype = (IF e.ajax THEN "application/json" ELSE "text/html; charset=utf-8")
Q3(e) == e.ajax => (e.parsed /\ e.listed = e.valid)          \* the same multiset of modules (both sorted by the recorder)
Q4(e) == ~e.ajax => (e.status = "200 OK" => e.listed = e.valid)
Q5(e) == (e.marker # <<>> /\ e.status = "200 OK" /\ ~e.ajax)
           => (~HasSlice(e.body, e.marker) /\ HasSlice(e.body, e.escaped))
Q6(e) == e.hfresh # "" => e.h = e.hfresh
(* template cache: loaded by the first request, never reloaded or changed *)
T0(e, loaded) == e.tmpl_loaded_before = loaded
=============================================================================
