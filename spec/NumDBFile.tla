----------------------------- MODULE NumDBFile -----------------------------
(* The line grammar of a registry file, over code points:                      *)
(*      line  ::= indent ranges [ws props]                                      *)
(*      ranges::= range ("," range)*        range ::= word | word "-" word      *)
(*      props ::= (ws* key '="' value '"')* ws*     key ::= [0-9a-zA-Z_-]+      *)
(* A line is WELL-FORMED when every range has end points of equal length with   *)
(* low <= high, and the property text is consumed completely by the key="value" *)
(* grammar (nothing is silently ignored).                                       *)
EXTENDS Text

SP == 32  COMMA == 44  DASH == 45  QUOTE == 34  EQ == 61
IsWsCp(c) == c \in {32, 9, 13, 10}
IsKeyCp(c) == IsAlnumCp(c) \/ c = 45 \/ c = 95

IndentOf(s) == IF \E i \in 1..Len(s) : s[i] # SP
               THEN (CHOOSE i \in 1..Len(s) : s[i] # SP /\ \A j \in 1..(i - 1) : s[j] = SP) - 1
               ELSE Len(s)
(* first index >= from whose character satisfies / fails a test; Len+1 when none *)
NextWs(s, from) == IF \E i \in from..Len(s) : IsWsCp(s[i])
                   THEN CHOOSE i \in from..Len(s) : IsWsCp(s[i]) /\ \A j \in from..(i - 1) : ~IsWsCp(s[j])
                   ELSE Len(s) + 1
NextNonWs(s, from) == IF \E i \in from..Len(s) : ~IsWsCp(s[i])
                      THEN CHOOSE i \in from..Len(s) : ~IsWsCp(s[i]) /\ \A j \in from..(i - 1) : IsWsCp(s[j])
                      ELSE Len(s) + 1
NextNonKey(s, from) == IF \E i \in from..Len(s) : ~IsKeyCp(s[i])
                       THEN CHOOSE i \in from..Len(s) : ~IsKeyCp(s[i]) /\ \A j \in from..(i - 1) : IsKeyCp(s[j])
                       ELSE Len(s) + 1
NextCp(s, from, c) == IF \E i \in from..Len(s) : s[i] = c
                      THEN CHOOSE i \in from..Len(s) : s[i] = c /\ \A j \in from..(i - 1) : s[j] # c
                      ELSE Len(s) + 1

(* split on a separator character                                              *)
SplitOn(s, c) ==
  LET r == FoldLeft(LAMBDA acc, x : IF x = c THEN [done |-> Append(acc.done, acc.cur), cur |-> <<>>]
                                    ELSE [acc EXCEPT !.cur = Append(acc.cur, x)],
                    [done |-> <<>>, cur |-> <<>>], s)
  IN Append(r.done, r.cur)

RangesText(s) == LET a == IndentOf(s) + 1 IN SubSeq(s, a, NextWs(s, a) - 1)
PropsText(s) == LET a == IndentOf(s) + 1 IN SubSeq(s, NextWs(s, a), Len(s))

(* <<low, high>> per range                                                      *)
RangeOf(w) == LET i == NextCp(w, 1, DASH)
              IN IF i > Len(w) THEN <<w, w>> ELSE <<SubSeq(w, 1, i - 1), SubSeq(w, i + 1, Len(w))>>
Ranges(s) == LET ws == SplitOn(RangesText(s), COMMA) IN [i \in 1..Len(ws) |-> RangeOf(ws[i])]

(* properties: [ok, props] where props is a sequence of <<key, value>>          *)
RECURSIVE ParseProps(_, _, _)
ParseProps(t, i, acc) ==
  LET a == NextNonWs(t, i)
  IN IF a > Len(t) THEN [ok |-> TRUE, props |-> acc]
     ELSE LET k == NextNonKey(t, a)
          IN IF k = a \/ k + 1 > Len(t) \/ t[k] # EQ \/ t[k + 1] # QUOTE THEN [ok |-> FALSE, props |-> acc]
             ELSE LET e == NextCp(t, k + 2, QUOTE)
                  IN IF e > Len(t) THEN [ok |-> FALSE, props |-> acc]
                     ELSE ParseProps(t, e + 1, Append(acc, <<SubSeq(t, a, k - 1), SubSeq(t, k + 2, e - 1)>>))
Props(s) == ParseProps(PropsText(s), 1, <<>>)

RangeOK(r) == /\ Len(r[1]) >= 1 /\ Len(r[1]) = Len(r[2]) /\ LexLeq(r[1], r[2])
              /\ \A i \in 1..Len(r[1]) : r[1][i] # DASH /\ ~IsWsCp(r[1][i])
              /\ \A i \in 1..Len(r[2]) : r[2][i] # DASH /\ ~IsWsCp(r[2][i])
WellFormedLine(s) == /\ \A i \in 1..Len(Ranges(s)) : RangeOK(Ranges(s)[i])
                     /\ Props(s).ok

(* ---- from lines to the tree ------------------------------------------------------------------------------------ *)
(* A file is a sequence of parsed lines [indent, ranges, props].  A line deeper than the previous one hangs under ALL     *)
(* ranges of the nearest shallower preceding line; a line at an indentation that is still open continues that level.     *)
(* The tree is built with a stack of <<indent, paths>>, paths being the positions (index paths through kids) of the       *)
(* entries the line at that indentation created.                                                                          *)
EntriesOf(ln) == [i \in 1..Len(ln.ranges) |->
                    [len |-> Len(ln.ranges[i][1]), low |-> ln.ranges[i][1], high |-> ln.ranges[i][2], props |-> ln.props, kids |-> <<>>]]
RECURSIVE AppendAt(_, _, _)
AppendAt(level, path, entries) ==
  IF path = <<>> THEN level \o entries
  ELSE [level EXCEPT ![path[1]].kids = AppendAt(@, Tail(path), entries)]
RECURSIVE KidsAt(_, _)
KidsAt(level, path) == IF path = <<>> THEN level ELSE KidsAt(level[path[1]].kids, Tail(path))
PopTo(stack, d) == LET keep == {i \in 1..Len(stack) : stack[i][1] < d}
                   IN SubSeq(stack, 1, IF keep = {} THEN 0 ELSE CHOOSE i \in keep : \A j \in keep : j <= i)
BuildStep(st, ln) ==
  LET stack == PopTo(st.stack, ln.indent)
      parents == IF stack = <<>> THEN << <<>> >> ELSE stack[Len(stack)][2]
      ents == EntriesOf(ln)
      (* positions of the new entries under each parent, computed before anything is inserted *)
      newpaths == FoldLeft(LAMBDA acc, p : acc \o [i \in 1..Len(ents) |-> p \o <<Len(KidsAt(st.tree, p)) + i>>], <<>>, parents)
      tree2 == FoldLeft(LAMBDA t, p : AppendAt(t, p, ents), st.tree, parents)
  IN [tree |-> tree2, stack |-> Append(stack, <<ln.indent, newpaths>>)]
BuildTree(lines) == FoldLeft(BuildStep, [tree |-> <<>>, stack |-> <<>>], lines).tree
=============================================================================
