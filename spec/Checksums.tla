----------------------------- MODULE Checksums -----------------------------
(* The generic check digit algorithms as finite automata                       *)
(*      Aut = [nq, na, q0, acc, delta, kind, swapok, check, dir, ncheck, luhn] *)
(* States are 0..nq-1, symbols 0..na-1 (indices into the alphabet),            *)
(* delta[q+1][c+1] is the state after reading symbol c in state q.             *)
(* dir = "l2r": the automaton reads the string left to right (the check        *)
(* character is read last); "r2l": right to left (check character first).      *)
(* kind[c+1]: 0 digit, 1 letter, 2 extra symbol (X or star); "same kind"       *)
(* substitutions are digit<->digit and letter<->letter.                        *)
(* The definitions below are written from the algorithms' mathematical         *)
(* descriptions (Luhn formula; Verhoeff: dihedral group D5 and the iterated    *)
(* permutation; Damm: the quasigroup of Damm's thesis; ISO 7064 pure and       *)
(* hybrid recurrences), not copied from the library.                           *)
EXTENDS Naturals, Sequences, FiniteSets, SequencesExt, Functions

Seq0(n, F(_)) == [i \in 1..n |-> F(i - 1)]        \* 0-based comprehension as a sequence

KindsAlnum(na) == [i \in 1..na |-> IF i <= 10 THEN 0 ELSE IF i <= 36 THEN 1 ELSE 2]
AllOK(na) == [i \in 1..na |-> TRUE]

(* ---- Luhn mod N (N even): right to left, state = 2 * sum + parity ------------------ *)
LuhnDbl(N, c) == ((2 * c) \div N) + ((2 * c) % N)
LuhnStep(N, q, c) == LET s == q \div 2  p == q % 2
                     IN IF p = 0 THEN 2 * ((s + c) % N) + 1 ELSE 2 * ((s + LuhnDbl(N, c)) % N)
Luhn(N) == [nq |-> 2 * N, na |-> N, q0 |-> 0, acc |-> <<0, 1>>,
            delta |-> Seq0(2 * N, LAMBDA q : Seq0(N, LAMBDA c : LuhnStep(N, q, c))),
            kind |-> KindsAlnum(N), swapok |-> AllOK(N), check |-> Seq0(N, LAMBDA c : c),
            dir |-> "r2l", ncheck |-> 1, luhn |-> TRUE, swap |-> FALSE]

(* ---- Verhoeff: D5 = <r, s | r^5 = s^2 = 1, s r = r^-1 s>; elements 0..4 = r^i, 5..9 = r^i s --- *)
D5Mul(j, k) == IF j < 5 THEN (IF k < 5 THEN (j + k) % 5 ELSE 5 + ((j + (k - 5)) % 5))
               ELSE (IF k < 5 THEN 5 + (((j - 5) + 5 - k) % 5) ELSE ((j - 5) + 5 - (k - 5)) % 5)
VPerm1 == <<1, 5, 7, 6, 2, 8, 3, 0, 9, 4>>          \* Verhoeff's permutation sigma (0-based values)
RECURSIVE VPerm(_, _)
VPerm(i, n) == IF i = 0 THEN n ELSE VPerm(i - 1, VPerm1[n + 1])     \* sigma^i (n), period 8
(* right to left, state = 8 * check + position                                                   *)
VerhoeffStep(q, c) == LET d == q \div 8  p == q % 8
                      IN 8 * D5Mul(d, VPerm(p, c)) + ((p + 1) % 8)
Verhoeff == [nq |-> 80, na |-> 10, q0 |-> 0, acc |-> Seq0(8, LAMBDA p : p),
             delta |-> Seq0(80, LAMBDA q : Seq0(10, LAMBDA c : VerhoeffStep(q, c))),
             kind |-> KindsAlnum(10), swapok |-> AllOK(10), check |-> Seq0(10, LAMBDA c : c),
             dir |-> "r2l", ncheck |-> 1, luhn |-> FALSE, swap |-> TRUE]

(* ---- Damm: totally anti-symmetric quasigroup of order 10 (H. M. Damm, 2004) ----------------- *)
DammTable == <<
  <<0, 3, 1, 7, 5, 9, 8, 6, 4, 2>>, <<7, 0, 9, 2, 1, 5, 4, 8, 6, 3>>, <<4, 2, 0, 6, 8, 7, 1, 3, 5, 9>>,
  <<1, 7, 5, 0, 9, 8, 3, 4, 2, 6>>, <<6, 1, 2, 3, 0, 4, 5, 9, 7, 8>>, <<3, 6, 7, 4, 2, 0, 9, 5, 8, 1>>,
  <<5, 8, 6, 9, 7, 2, 0, 1, 3, 4>>, <<8, 9, 4, 5, 3, 6, 2, 0, 1, 7>>, <<9, 4, 3, 8, 6, 1, 7, 2, 0, 5>>,
  <<2, 5, 8, 1, 4, 3, 6, 7, 9, 0>> >>
Damm == [nq |-> 10, na |-> 10, q0 |-> 0, acc |-> <<0>>, delta |-> DammTable,
         kind |-> KindsAlnum(10), swapok |-> AllOK(10), check |-> Seq0(10, LAMBDA c : c),
         dir |-> "l2r", ncheck |-> 1, luhn |-> FALSE, swap |-> TRUE]

(* ---- ISO 7064 pure systems MOD M,2 with one check character (M = 11, 37): check = (2 check + c) mod M --- *)
(* na = M symbols; the last symbol (X resp. star) is the extra check symbol of kind 2                        *)
Pure2(M) == [nq |-> M, na |-> M, q0 |-> 0, acc |-> <<1>>,
             delta |-> Seq0(M, LAMBDA q : Seq0(M, LAMBDA c : (2 * q + c) % M)),
             kind |-> [i \in 1..M |-> IF i = M THEN 2 ELSE IF i <= 10 THEN 0 ELSE 1],
             swapok |-> AllOK(M), check |-> Seq0(M, LAMBDA c : c),
             dir |-> "l2r", ncheck |-> 1, luhn |-> FALSE, swap |-> TRUE]

(* ---- ISO 7064 hybrid systems MOD M+1,M (M = 10, 36) -------------------------------------------- *)
HybridStep(M, q, c) == ((((IF q = 0 THEN M ELSE q) * 2) % (M + 1)) + c) % M
Hybrid(M) == [nq |-> M, na |-> M, q0 |-> M \div 2, acc |-> <<1>>,
              delta |-> Seq0(M, LAMBDA q : Seq0(M, LAMBDA c : HybridStep(M, q, c))),
              kind |-> KindsAlnum(M), swapok |-> AllOK(M), check |-> Seq0(M, LAMBDA c : c),
              dir |-> "l2r", ncheck |-> 1, luhn |-> FALSE, swap |-> FALSE]

(* ---- ISO 7064 MOD 97-10: digits shift the value by 10, letters (10..35) by 100; two check digits --- *)
M97Step(q, c) == IF c < 10 THEN (10 * q + c) % 97 ELSE (100 * q + c) % 97
Mod9710 == [nq |-> 97, na |-> 36, q0 |-> 0, acc |-> <<1>>,
            delta |-> Seq0(97, LAMBDA q : Seq0(36, LAMBDA c : M97Step(q, c))),
            kind |-> KindsAlnum(36), swapok |-> [i \in 1..36 |-> i <= 10],
            check |-> Seq0(10, LAMBDA c : c), dir |-> "l2r", ncheck |-> 2, luhn |-> FALSE, swap |-> TRUE]

(* ---- deliberately broken variants: negative instances that TLC must refute (vacuity guard) ---- *)
LuhnNoDouble(N) == [Luhn(N) EXCEPT !.delta = Seq0(2 * N, LAMBDA q : Seq0(N, LAMBDA c : 2 * (((q \div 2) + c) % N) + (1 - (q % 2))))]
Pure2Composite == Pure2(12)       \* modulus with a factor 2: doubling is not a bijection

Standard(name) ==
  CASE name = "luhn10" -> Luhn(10) [] name = "luhn16" -> Luhn(16) [] name = "luhn36" -> Luhn(36)
    [] name = "luhn2" -> Luhn(2) [] name = "luhn4" -> Luhn(4) [] name = "luhn6" -> Luhn(6) [] name = "luhn8" -> Luhn(8)
    [] name = "luhn12" -> Luhn(12) [] name = "luhn14" -> Luhn(14) [] name = "luhn18" -> Luhn(18) [] name = "luhn20" -> Luhn(20)
    [] name = "luhn22" -> Luhn(22) [] name = "luhn24" -> Luhn(24) [] name = "luhn26" -> Luhn(26) [] name = "luhn28" -> Luhn(28)
    [] name = "luhn30" -> Luhn(30) [] name = "luhn32" -> Luhn(32) [] name = "luhn34" -> Luhn(34) [] name = "luhn38" -> Luhn(38)
    [] name = "luhn40" -> Luhn(40)
    [] name = "verhoeff" -> Verhoeff [] name = "damm" -> Damm
    [] name = "mod_11_2" -> Pure2(11) [] name = "mod_37_2" -> Pure2(37)
    [] name = "mod_11_10" -> Hybrid(10) [] name = "mod_37_36" -> Hybrid(36)
    [] name = "mod_97_10" -> Mod9710
    [] name = "NEG_luhn_nodouble" -> LuhnNoDouble(10) [] name = "NEG_pure_composite" -> Pure2Composite
=============================================================================
