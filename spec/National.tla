------------------------------- MODULE National -------------------------------
(* National numbers whose published check digit algorithm is a weighted sum:     *)
(* an independent transcription, judged on the module's own compact form c       *)
(* (what compact() strips is C03's subject).  AcceptN(m, c) says whether c is a  *)
(* valid number of format m.  This is the growth path of the specification:      *)
(* every row turns a contract check of that module into an agreement check.      *)
EXTENDS Text, TLC

D(c) == c - 48
Sum(f(_), n) == FoldLeft(LAMBDA a, i : a + f(i), 0, [i \in 1..n |-> i])
W(c, w) == Sum(LAMBDA i : w[i] * D(c[i]), Len(w))            \* weighted sum over the first Len(w) digits
AllZero(c) == \A i \in 1..Len(c) : c[i] = 48
DigitSum(n) == (n \div 10) + (n % 10)
NumOf(c, a, b) == FoldLeft(LAMBDA acc, ch : 10 * acc + D(ch), 0, SubSeq(c, a, b))     \* needs b - a + 1 <= 9 digits
ModOf(c, m) == FoldLeft(LAMBDA acc, ch : (10 * acc + D(ch)) % m, 0, c)

Known == {"nl.bsn", "nl.onderwijsnummer", "pl.nip", "pl.regon", "pt.nif", "dk.cvr", "fi.alv", "no.orgnr", "es.dni", "ee.kmkr", "mt.vat",
          "lu.tva", "gr.vat", "hu.anum", "be.vat", "si.ddv", "at.uid", "br.cpf", "tr.tckimlik", "ch.uid", "it.iva", "se.orgnr", "fr.siren",
          "ca.sin", "il.idnr", "co.nit", "de.vat", "hr.oib", "ro.cui", "ru.inn", "us.rtn", "au.abn", "au.acn", "au.tfn", "jp.cn",
          "ar.cuit", "al.nipt", "by.unp", "cl.rut", "cy.vat", "ec.ci", "ee.registrikood", "gb.nhs", "gb.utr", "gt.nit", "is_.vsk",
          "kr.brn", "me.pib", "mk.edb", "nz.ird", "pe.ruc", "py.ruc", "rs.pib", "tr.vkn", "ua.edrpou", "uy.rut", "ve.rif",
          "vn.mst", "za.tin", "th.pin", "lt.pvm", "fi.veronumero", "eg.tn", "ma.ice",
          "es.nie", "es.cif", "gb.vat", "fr.tva", "ie.pps", "cr.cpf", "cr.cpj", "do.rnc", "fi.associationid", "fr.siret", "in_.pan",
          "ke.pin", "li.peid", "md.idno", "nl.btw", "no.mva",
          "ar.dni", "ar.cbu", "at.businessid", "at.vnr", "br.cnpj", "ca.bn", "ca.bc_phn", "ch.esr", "ch.vat", "cn.uscc", "cr.cr",
          "de.idnr", "de.wkn", "dz.nif", "eu.banknote", "eu.eic", "fo.vn",
          "ec.ruc", "es.ccc", "es.postal_code", "eu.ecnumber", "eu.oss", "gh.tin", "gn.nifp", "il.hp", "in_.aadhaar", "in_.vid",
          "in_.epic", "it.aic", "mc.tva", "nl.postcode", "nl.brin", "nl.identiteitskaartnummer", "no.kontonr", "pk.cnic",
          "ad.nrt", "bg.pnf", "do.ncf", "es.cae", "fi.ytunnus", "fr.nif", "gb.upn", "ie.vat", "pe.cui", "pt.cc", "ru.ogrn",
          "se.postnummer", "se.vat", "si.maticna", "sm.coe", "sv.nit", "th.moa",
          "bg.egn", "cu.ni", "cz.rc", "sk.rc", "lt.asmens", "ro.cnp", "kr.rrn", "gr.amka", "is_.kennitala",
          "es.cups", "es.nif", "es.referenciacatastral", "fr.nir", "in_.gstin", "si.emso", "tn.mf", "tw.ubn", "ua.rntrc", "us.ptin",
          "bg.vat", "cz.dic", "sk.dph", "ro.cf", "th.tin", "it.codicefiscale", "mu.nid", "eu.at_02", "mx.rfc", "mx.curp",
          "iso6346", "be.eid", "de.stnr", "isan", "meid"}
(* formats with further rules (dates, ranges) that are not transcribed: the checksum is only a NECESSARY condition *)
Necessary == {"no.fodselsnummer", "fi.hetu", "ch.ssn", "lv.pvn", "pl.pesel", "ee.ik", "at.tin", "dk.cpr", "za.idnr", "se.personnummer", "cz.bankaccount",
              "sg.uen", "ro.onrc", "id.nik", "id.npwp", "cn.ric", "be.nn", "be.bis", "us.ssn", "us.itin", "us.atin", "us.ein", "nz.bankaccount", "my.nric", "mac", "imsi", "cfi", "isil", "at.postleitzahl", "eu.nace", "be.ssn"}

WRev(c, n, w) == Sum(LAMBDA i : w[i] * D(c[n + 1 - i]), n)      \* weights counted from the right over the first n characters
LuhnSum(c) == Sum(LAMBDA i : IF (Len(c) - i) % 2 = 1 THEN DigitSum(2 * D(c[i])) ELSE D(c[i]), Len(c))
Iso1110(c) == FoldLeft(LAMBDA q, ch : ((((IF q = 0 THEN 10 ELSE q) * 2) % 11) + D(ch)) % 10, 5, c)
IndexIn(ch, s) == CHOOSE i \in 1..Len(s) : s[i] = ch
In(ch, s) == \E i \in 1..Len(s) : s[i] = ch
DniLetters == <<84, 82, 87, 65, 71, 77, 89, 70, 80, 68, 88, 66, 78, 74, 90, 83, 81, 86, 72, 76, 67, 75, 69>>
BsnOk(c) == Len(c) = 9 /\ IsDigits(c) /\ ~AllZero(c) /\ (W(c, <<9, 8, 7, 6, 5, 4, 3, 2>>) + 11 * 9 - D(c[9])) % 11 = 0
SirenOk(c) == Len(c) = 9 /\ IsDigits(c) /\ Sum(LAMBDA i : IF i % 2 = 0 THEN DigitSum(2 * D(c[i])) ELSE D(c[i]), 9) % 10 = 0
OrgnrOk(c) == Len(c) = 9 /\ IsDigits(c) /\ W(c, <<3, 2, 7, 6, 5, 4, 3, 2, 1>>) % 11 = 0
LuhnCheckDigit(c) == CHOOSE d \in 0..9 : LuhnSum(c \o <<48 + d>>) % 10 = 0
(* ISO 7064 Mod 97-10 over digits and letters (A = 10 .. Z = 35) *)
Mod97Alnum(c) == FoldLeft(LAMBDA acc, ch : IF ch <= 57 THEN (10 * acc + D(ch)) % 97 ELSE (100 * acc + (ch - 55)) % 97, 0, c)
(* Irish check letter over 7 digits and an optional second letter: alphabet WABC..V *)
IeCheck(d7, extra) == LET r == (W(d7, <<8, 7, 6, 5, 4, 3, 2>>) + 9 * extra) % 23 IN IF r = 0 THEN 87 ELSE 64 + r
IeLetterVal(ch) == IF ch = 87 THEN 0 ELSE ch - 64
FrAlpha(ch) == (ch \in 48..57) \/ (ch \in 65..90 /\ ch \notin {73, 79})
FrIdx(ch) == IF ch <= 57 THEN ch - 48 ELSE 10 + (ch - 65) - (IF ch > 73 THEN 1 ELSE 0) - (IF ch > 79 THEN 1 ELSE 0)
DigitTotal(c) == Sum(LAMBDA i : D(c[i]), Len(c))
ChUidOk(c) == /\ Len(c) = 12 /\ SubSeq(c, 1, 3) = <<67, 72, 69>> /\ IsDigits(SubSeq(c, 4, 12))
              /\ LET d == SubSeq(c, 4, 12)  r == (11 - (W(d, <<5, 4, 3, 2, 7, 6, 5, 4>>) % 11)) % 11 IN r = D(d[9])
Count(ch, c) == Cardinality({i \in 1..Len(c) : c[i] = ch})
UsccAlphabet == <<48, 49, 50, 51, 52, 53, 54, 55, 56, 57, 65, 66, 67, 68, 69, 70, 71, 72, 74, 75, 76, 77, 78, 80, 81, 82, 84, 85, 87, 88, 89>>
EicVal(ch) == IF ch = 45 THEN 36 ELSE IF ch <= 57 THEN ch - 48 ELSE ch - 55
FrTvaOk(c) == /\ Len(c) = 11 /\ FrAlpha(c[1]) /\ FrAlpha(c[2]) /\ IsDigits(SubSeq(c, 3, 11))
                       /\ (SubSeq(c, 3, 5) # <<48, 48, 48>> => SirenOk(SubSeq(c, 3, 11)))
                       /\ IF IsDigits(SubSeq(c, 1, 2)) THEN NumOf(c, 1, 2) = ModOf(SubSeq(c, 3, 11) \o <<49, 50>>, 97)
                          ELSE LET chk == IF c[1] <= 57 THEN FrIdx(c[1]) * 24 + FrIdx(c[2]) - 10 ELSE FrIdx(c[1]) * 34 + FrIdx(c[2]) - 100
                               IN (ModOf(SubSeq(c, 3, 11), 11) + 1 + (chk \div 11)) % 11 = chk % 11
EcCiOk(c) == /\ Len(c) = 10 /\ IsDigits(c) /\ NumOf(c, 1, 2) \in (1..24) \cup {30, 50} /\ D(c[3]) <= 6
                      /\ Sum(LAMBDA i : IF i % 2 = 1 THEN DigitSum(2 * D(c[i])) ELSE D(c[i]), 10) % 10 = 0
(* Verhoeff: dihedral group D5 and the permutation (1 5 7 6 2 8 3 0 9 4) applied position times, from the right *)
DihMul(j, k) == IF j < 5 THEN (IF k < 5 THEN (j + k) % 5 ELSE 5 + ((j + (k - 5)) % 5))
                ELSE (IF k < 5 THEN 5 + (((j - 5) + 5 - k) % 5) ELSE ((j - 5) + 5 - (k - 5)) % 5)
VP1 == <<1, 5, 7, 6, 2, 8, 3, 0, 9, 4>>
VPermPow(k, d) == FoldLeft(LAMBDA x, j : VP1[x + 1], d, [j \in 1..k |-> j])
VerhoeffOk(c) == LET n == Len(c) IN FoldLeft(LAMBDA q, i : DihMul(q, VPermPow((i - 1) % 8, D(c[n + 1 - i]))), 0, [i \in 1..n |-> i]) = 0
Palindrome(c) == \A i \in 1..Len(c) : c[i] = c[Len(c) + 1 - i]
Dec9(n) == [i \in 1..9 |-> 48 + ((n \div (10 ^ (9 - i))) % 10)]
AicBase32 == <<48, 49, 50, 51, 52, 53, 54, 55, 56, 57, 66, 67, 68, 70, 71, 72, 74, 75, 76, 77, 78, 80, 81, 82, 83, 84, 85, 86, 87, 88, 89, 90>>
AicBase10Ok(c) == /\ Len(c) = 9 /\ IsDigits(c) /\ c[1] = 48
                  /\ Sum(LAMBDA i : DigitSum((IF i % 2 = 1 THEN 1 ELSE 2) * D(c[i])), 8) % 10 = D(c[9])
EsCccDigit(ten) == LET r == Sum(LAMBDA i : D(ten[i]) * (2 ^ (i - 1)), 10) % 11 IN IF r < 2 THEN r ELSE 11 - r
EsCaeActivities == {<<65, 49>>, <<66, 49>>, <<66, 57>>, <<66, 48>>, <<66, 65>>, <<67, 49>>, <<68, 65>>, <<69, 67>>, <<70, 49>>, <<86, 49>>, <<65, 55>>, <<65, 84>>, <<66, 55>>, <<66, 84>>, <<67, 55>>, <<68, 66>>, <<69, 55>>, <<77, 55>>, <<79, 65>>, <<79, 66>>, <<79, 69>>, <<79, 86>>, <<86, 55>>, <<66, 54>>, <<65, 50>>, <<65, 54>>, <<65, 57>>, <<65, 48>>, <<65, 67>>, <<65, 86>>, <<65, 87>>, <<65, 88>>, <<72, 49>>, <<72, 50>>, <<72, 52>>, <<72, 54>>, <<72, 57>>, <<72, 48>>, <<72, 68>>, <<72, 72>>, <<72, 55>>, <<72, 56>>, <<72, 66>>, <<72, 70>>, <<72, 73>>, <<72, 74>>, <<72, 75>>, <<72, 76>>, <<72, 77>>, <<72, 78>>, <<72, 84>>, <<72, 85>>, <<72, 86>>, <<72, 88>>, <<72, 90>>, <<79, 72>>, <<72, 65>>, <<72, 67>>, <<72, 69>>, <<72, 80>>, <<72, 81>>, <<72, 82>>, <<72, 83>>, <<72, 87>>, <<84, 49>>, <<79, 84>>, <<84, 55>>, <<84, 84>>, <<76, 49>>, <<76, 50>>, <<76, 48>>, <<76, 51>>, <<76, 55>>, <<65, 70>>, <<68, 70>>, <<68, 77>>, <<68, 80>>, <<79, 82>>, <<80, 70>>, <<82, 70>>, <<86, 68>>}
GbLaNumbers == {201, 202, 203, 204, 205, 206, 207, 208, 209, 210, 211, 212, 213, 301, 302, 303, 304, 305, 306, 307, 308, 309, 310, 311, 312, 313, 314, 315, 316, 317, 318, 319, 320, 330, 331, 332, 333, 334, 335, 336, 340, 341, 342, 343, 344, 350, 351, 352, 353, 354, 355, 356, 357, 358, 359, 370, 371, 372, 373, 380, 381, 382, 383, 384, 390, 391, 392, 393, 394, 420, 800, 801, 802, 803, 805, 806, 807, 808, 810, 811, 812, 813, 815, 816, 821, 822, 823, 825, 826, 830, 831, 835, 836, 837, 840, 841, 845, 846, 850, 851, 852, 855, 856, 857, 860, 861, 865, 866, 867, 868, 869, 870, 871, 872, 873, 874, 876, 877, 878, 879, 880, 881, 882, 883, 884, 885, 886, 887, 888, 889, 890, 891, 892, 893, 894, 895, 896, 908, 909, 916, 919, 921, 925, 926, 928, 929, 931, 933, 935, 936, 937, 938}
UpnAlphabet == <<65, 66, 67, 68, 69, 70, 71, 72, 74, 75, 76, 77, 78, 80, 81, 82, 84, 85, 86, 87, 88, 89, 90, 48, 49, 50, 51, 52, 53, 54, 55, 56, 57>>
IeAlpha(ch) == ch = 87 \/ ch \in 65..86
ThPinCheck(c) == (11 - (W(c, <<13, 12, 11, 10, 9, 8, 7, 6, 5, 4, 3, 2>>) % 11)) % 10
NLeap(y) == (y % 4 = 0 /\ y % 100 # 0) \/ y % 400 = 0
NDaysIn(y, mth) == IF mth = 2 THEN (IF NLeap(y) THEN 29 ELSE 28) ELSE IF mth \in {4, 6, 9, 11} THEN 30 ELSE 31
NRealDate(y, mth, d) == mth \in 1..12 /\ d >= 1 /\ d <= NDaysIn(y, mth)
Before(y, mth, d, y2, m2, d2) == y < y2 \/ (y = y2 /\ (mth < m2 \/ (mth = m2 /\ d < d2)))
(* Czech / Slovak birth number *)
RcOk(c) == /\ IsDigits(c) /\ Len(c) \in {9, 10}
           /\ LET yy == NumOf(c, 1, 2)  mraw == NumOf(c, 3, 4)  dd == NumOf(c, 5, 6)
                  mth == IF mraw > 70 THEN mraw - 70 ELSE IF mraw > 50 THEN mraw - 50 ELSE IF mraw > 20 THEN mraw - 20 ELSE mraw
                  year == IF Len(c) = 9 THEN (IF yy >= 80 THEN 1800 + yy ELSE 1900 + yy) ELSE (IF yy >= 54 THEN 1900 + yy ELSE 2000 + yy)
                  r == ModOf(SubSeq(c, 1, 9), 11)
              IN /\ (Len(c) = 9 => year <= 1953)
                 /\ NRealDate(year, mth, dd)
                 /\ (Len(c) = 10 => (IF Before(year, mth, dd, 1985, 1, 1) THEN r % 10 ELSE r) = D(c[10]))
EsDniOk(c) == /\ Len(c) = 9 /\ IsDigits(SubSeq(c, 1, 8))
                       /\ c[9] = <<84, 82, 87, 65, 71, 77, 89, 70, 80, 68, 88, 66, 78, 74, 90, 83, 81, 86, 72, 76, 67, 75, 69>>[ModOf(SubSeq(c, 1, 8), 23) + 1]
EsNieOk(c) == /\ Len(c) = 9 /\ c[1] \in {88, 89, 90} /\ IsDigits(SubSeq(c, 2, 8))
                       /\ c[9] = DniLetters[ModOf(<<48 + (c[1] - 88)>> \o SubSeq(c, 2, 8), 23) + 1]
EsCifOk(c) == /\ Len(c) = 9 /\ IsDigits(SubSeq(c, 2, 8)) /\ In(c[1], <<65, 66, 67, 68, 69, 70, 71, 72, 74, 78, 80, 81, 82, 83, 85, 86, 87>>)
                       /\ LET cd == LuhnCheckDigit(SubSeq(c, 2, 8)) IN c[9] = 48 + cd \/ c[9] = <<74, 65, 66, 67, 68, 69, 70, 71, 72, 73>>[cd + 1]
InPanOk(c) == /\ Len(c) = 10 /\ (\A i \in 1..5 : c[i] \in 65..90) /\ IsDigits(SubSeq(c, 6, 9)) /\ c[10] \in 65..90
                        /\ In(c[4], <<65, 66, 67, 70, 71, 72, 76, 74, 80, 84, 75>>) /\ NumOf(c, 6, 9) # 0
Luhn36Sum(c) == Sum(LAMBDA i : LET v == EicVal(c[i]) IN IF (Len(c) - i) % 2 = 1 THEN ((2 * v) \div 36) + ((2 * v) % 36) ELSE v, Len(c))
CatVal(ch) == IF ch <= 57 THEN ch - 48 ELSE IF ch <= 78 THEN ch - 64 ELSE ch - 63       \* A = 1 .. N = 14, (N-tilde = 15), O = 16 .. Z = 27
CatLetters == <<77, 81, 87, 69, 82, 84, 89, 85, 73, 79, 80, 65, 83, 68, 70, 71, 72, 74, 75, 76, 66, 90, 88>>
CatCheck(eleven) == CatLetters[(Sum(LAMBDA i : <<13, 15, 12, 5, 4, 17, 9, 21, 3, 7, 1>>[i] * CatVal(eleven[i]), 11) % 23) + 1]
CupsLetters == <<84, 82, 87, 65, 71, 77, 89, 70, 80, 68, 88, 66, 78, 74, 90, 83, 81, 86, 72, 76, 67, 75, 69>>
BgEgnOk(c) == /\ Len(c) = 10 /\ IsDigits(c) /\ (W(c, <<2, 4, 8, 5, 10, 9, 7, 3, 6>>) % 11) % 10 = D(c[10])
                       /\ LET yy == NumOf(c, 1, 2)  mm == NumOf(c, 3, 4)
                          IN IF mm > 40 THEN NRealDate(2000 + yy, mm - 40, NumOf(c, 5, 6))
                             ELSE IF mm > 20 THEN NRealDate(1800 + yy, mm - 20, NumOf(c, 5, 6)) ELSE NRealDate(1900 + yy, mm, NumOf(c, 5, 6))
BgPnfOk(c) == Len(c) = 10 /\ IsDigits(c) /\ W(c, <<21, 19, 17, 13, 11, 9, 7, 3, 1>>) % 10 = D(c[10])
RoCnpOk(c) == /\ Len(c) = 13 /\ IsDigits(c) /\ c[1] # 48
                       /\ NRealDate((CASE D(c[1]) \in {3, 4} -> 1800 [] D(c[1]) \in {5, 6} -> 2000 [] OTHER -> 1900) + NumOf(c, 2, 3), NumOf(c, 4, 5), NumOf(c, 6, 7))
                       /\ NumOf(c, 8, 9) \in (1..48) \cup {51, 52}
                       /\ LET r == W(c, <<2, 7, 9, 1, 4, 6, 3, 5, 8, 2, 7, 9>>) % 11 IN (IF r = 10 THEN 1 ELSE r) = D(c[13])
RoCuiOk(c) == /\ Len(c) >= 2 /\ Len(c) <= 10 /\ IsDigits(c) /\ c[1] # 48
                       /\ LET z == ZFill(c, 10) IN ((W(z, <<7, 5, 3, 2, 1, 7, 5, 3, 2>>) * 10) % 11) % 10 = D(z[10])
ThPinOk(c) == /\ Len(c) = 13 /\ IsDigits(c) /\ D(c[1]) \notin {0, 9}
                       /\ (11 - (W(c, <<13, 12, 11, 10, 9, 8, 7, 6, 5, 4, 3, 2>>) % 11)) % 10 = D(c[13])
ThMoaOk(c) == Len(c) = 13 /\ IsDigits(c) /\ c[1] = 48 /\ ThPinCheck(c) = D(c[13])
ItIvaOk(c) == /\ Len(c) = 11 /\ IsDigits(c) /\ ~AllZero(SubSeq(c, 1, 7))
                       /\ LET off == NumOf(c, 8, 10) IN ((off >= 1 /\ off <= 100) \/ off \in {120, 121, 888, 999})
                       /\ Sum(LAMBDA i : IF i % 2 = 0 THEN DigitSum(2 * D(c[i])) ELSE D(c[i]), 11) % 10 = 0
OmoDigit(ch) == IF ch <= 57 THEN ch - 48 ELSE IndexIn(ch, <<76, 77, 78, 80, 81, 82, 83, 84, 85, 86>>) - 1
IsOmo(ch) == (ch \in 48..57) \/ In(ch, <<76, 77, 78, 80, 81, 82, 83, 84, 85, 86>>)
CfOdd == <<1, 0, 5, 7, 9, 13, 15, 17, 19, 21, 2, 4, 18, 20, 11, 3, 6, 8, 12, 14, 16, 10, 22, 25, 24, 23>>
CfMonths == <<65, 66, 67, 68, 69, 72, 76, 77, 80, 82, 83, 84>>
CfVal(ch, odd) == LET k == IF ch <= 57 THEN ch - 48 ELSE ch - 65 IN IF odd THEN CfOdd[k + 1] ELSE k
(* tables copied from the modules (data, like the registries): forbidden name prefixes and the Mexican state codes *)
MxRfcBlacklist == {<<66, 85, 69, 73>>, <<66, 85, 69, 89>>, <<67, 65, 67, 65>>, <<67, 65, 67, 79>>, <<67, 65, 71, 65>>, <<67, 65, 71, 79>>, <<67, 65, 75, 65>>, <<67, 65, 75, 79>>, <<67, 79, 71, 69>>, <<67, 79, 74, 65>>, <<67, 79, 74, 69>>, <<67, 79, 74, 73>>, <<67, 79, 74, 79>>, <<67, 85, 76, 79>>, <<70, 69, 84, 79>>, <<71, 85, 69, 89>>, <<74, 79, 84, 79>>, <<75, 65, 67, 65>>, <<75, 65, 67, 79>>, <<75, 65, 71, 65>>, <<75, 65, 71, 79>>, <<75, 65, 75, 65>>, <<75, 79, 71, 69>>, <<75, 79, 74, 79>>, <<75, 85, 76, 79>>, <<77, 65, 77, 69>>, <<77, 65, 77, 79>>, <<77, 69, 65, 82>>, <<77, 69, 65, 83>>, <<77, 69, 79, 78>>, <<77, 73, 79, 78>>, <<77, 79, 67, 79>>, <<77, 85, 76, 65>>, <<80, 69, 68, 65>>, <<80, 69, 68, 79>>, <<80, 69, 78, 69>>, <<80, 85, 84, 65>>, <<80, 85, 84, 79>>, <<81, 85, 76, 79>>, <<82, 65, 84, 65>>, <<82, 85, 73, 78>>}
MxCurpBlacklist == {<<66, 65, 67, 65>>, <<66, 65, 75, 65>>, <<66, 85, 69, 73>>, <<66, 85, 69, 89>>, <<67, 65, 67, 65>>, <<67, 65, 67, 79>>, <<67, 65, 71, 65>>, <<67, 65, 71, 79>>, <<67, 65, 75, 65>>, <<67, 65, 75, 79>>, <<67, 79, 71, 69>>, <<67, 79, 71, 73>>, <<67, 79, 74, 65>>, <<67, 79, 74, 69>>, <<67, 79, 74, 73>>, <<67, 79, 74, 79>>, <<67, 79, 76, 65>>, <<67, 85, 76, 79>>, <<70, 65, 76, 79>>, <<70, 69, 84, 79>>, <<71, 69, 84, 65>>, <<71, 85, 69, 73>>, <<71, 85, 69, 89>>, <<74, 69, 84, 65>>, <<74, 79, 84, 79>>, <<75, 65, 67, 65>>, <<75, 65, 67, 79>>, <<75, 65, 71, 65>>, <<75, 65, 71, 79>>, <<75, 65, 75, 65>>, <<75, 65, 75, 79>>, <<75, 79, 71, 69>>, <<75, 79, 71, 73>>, <<75, 79, 74, 65>>, <<75, 79, 74, 69>>, <<75, 79, 74, 73>>, <<75, 79, 74, 79>>, <<75, 79, 76, 65>>, <<75, 85, 76, 79>>, <<76, 73, 76, 79>>, <<76, 79, 67, 65>>, <<76, 79, 67, 79>>, <<76, 79, 75, 65>>, <<76, 79, 75, 79>>, <<77, 65, 77, 69>>, <<77, 65, 77, 79>>, <<77, 69, 65, 82>>, <<77, 69, 65, 83>>, <<77, 69, 79, 78>>, <<77, 73, 65, 82>>, <<77, 73, 79, 78>>, <<77, 79, 67, 79>>, <<77, 79, 75, 79>>, <<77, 85, 76, 65>>, <<77, 85, 76, 79>>, <<78, 65, 67, 65>>, <<78, 65, 67, 79>>, <<80, 69, 68, 65>>, <<80, 69, 68, 79>>, <<80, 69, 78, 69>>, <<80, 73, 80, 73>>, <<80, 73, 84, 79>>, <<80, 79, 80, 79>>, <<80, 85, 84, 65>>, <<80, 85, 84, 79>>, <<81, 85, 76, 79>>, <<82, 65, 84, 65>>, <<82, 79, 66, 65>>, <<82, 79, 66, 69>>, <<82, 79, 66, 79>>, <<82, 85, 73, 78>>, <<83, 69, 78, 79>>, <<84, 69, 84, 65>>, <<86, 65, 67, 65>>, <<86, 65, 71, 65>>, <<86, 65, 71, 79>>, <<86, 65, 75, 65>>, <<86, 85, 69, 73>>, <<86, 85, 69, 89>>, <<87, 85, 69, 73>>, <<87, 85, 69, 89>>}
MxStates == {<<65, 83>>, <<66, 67>>, <<66, 83>>, <<67, 67>>, <<67, 72>>, <<67, 76>>, <<67, 77>>, <<67, 83>>, <<68, 70>>, <<68, 71>>, <<71, 82>>, <<71, 84>>, <<72, 71>>, <<74, 67>>, <<77, 67>>, <<77, 78>>, <<77, 83>>, <<78, 69>>, <<78, 76>>, <<78, 84>>, <<79, 67>>, <<80, 76>>, <<81, 82>>, <<81, 84>>, <<83, 76>>, <<83, 80>>, <<83, 82>>, <<84, 67>>, <<84, 76>>, <<84, 83>>, <<86, 90>>, <<89, 78>>, <<90, 83>>}
MxCurpVal(ch) == IF ch <= 57 THEN ch - 48 ELSE IF ch = 38 THEN 24 ELSE IF ch <= 78 THEN ch - 55 ELSE ch - 54
MxLetter(ch) == (ch \in 65..90) \/ ch = 38
EstonianCheck(c, n) ==        \* check digit over the first n digits: weights 1,2,..,9,1,.. and, when that gives 10, 3,4,..,9,1,2,..
  LET s1 == Sum(LAMBDA i : (((i - 1) % 9) + 1) * D(c[i]), n) % 11
      s2 == Sum(LAMBDA i : (((i + 1) % 9) + 1) * D(c[i]), n) % 11
  IN  IF s1 < 10 THEN s1 ELSE s2 % 10

(* ---- batch of 2026-09-27: ISO 6346, Belgian eID, German Steuernummer (sufficient), and the clock- or registry-free parts of further formats (necessary) ---- *)
IsoVal(ch) == IF ch <= 57 THEN ch - 48 ELSE IF ch = 65 THEN 10 ELSE IF ch <= 75 THEN ch - 54 ELSE IF ch <= 85 THEN ch - 53 ELSE ch - 52   \* multiples of 11 are skipped
SgTypes == {<<67, 67>>, <<67, 68>>, <<67, 72>>, <<67, 76>>, <<67, 77>>, <<67, 80>>, <<67, 83>>, <<67, 88>>, <<68, 80>>, <<70, 66>>, <<70, 67>>, <<70, 77>>, <<70, 78>>, <<71, 65>>, <<71, 66>>, <<71, 83>>, <<72, 83>>, <<76, 76>>, <<76, 80>>, <<77, 66>>, <<77, 67>>, <<77, 68>>, <<77, 72>>, <<77, 77>>, <<77, 81>>, <<78, 66>>, <<78, 82>>, <<80, 65>>, <<80, 66>>, <<80, 70>>, <<82, 70>>, <<82, 80>>, <<83, 77>>, <<83, 83>>, <<84, 67>>, <<84, 85>>, <<86, 72>>, <<88, 76>>}
SgOtherAlphabet == <<65, 66, 67, 68, 69, 70, 71, 72, 74, 75, 76, 77, 78, 80, 81, 82, 83, 84, 85, 86, 87, 88, 48, 49, 50, 51, 52, 53, 54, 55, 56, 57>>
RoCounties == (1..40) \cup {51, 52}
IdNikNec(c) == /\ Len(c) = 16 /\ IsDigits(c)
               /\ LET dd == NumOf(c, 7, 8) % 40  mm == NumOf(c, 9, 10)  yy == NumOf(c, 11, 12)
                  IN NRealDate(1900 + yy, mm, dd) \/ NRealDate(2000 + yy, mm, dd)
BeNnChecksum(c) == LET k == NumOf(c, 10, 11) IN 97 - ModOf(SubSeq(c, 1, 9), 97) = k \/ 97 - ModOf(<<50>> \o SubSeq(c, 1, 9), 97) = k
NzAlg(c) == LET p == NumOf(c, 1, 2)
            IN CASE p \in ({1, 2, 3, 4, 6, 27, 30, 35, 38} \cup (10..24)) -> (IF NumOf(c, 7, 13) >= 990000 THEN "B" ELSE "A")
                 [] p = 8 -> "D" [] p = 9 -> "E" [] p \in {25, 33} -> "F" [] p \in {26, 28, 29} -> "G" [] OTHER -> "X"
NzWeights(a) == CASE a = "A" -> <<0, 0, 6, 3, 7, 9, 0, 10, 5, 8, 4, 2, 1, 0, 0, 0>>
                  [] a = "B" -> <<0, 0, 0, 0, 0, 0, 0, 10, 5, 8, 4, 2, 1, 0, 0, 0>>
                  [] a = "D" -> <<0, 0, 0, 0, 0, 0, 7, 6, 5, 4, 3, 2, 1, 0, 0, 0>>
                  [] a = "E" -> <<0, 0, 0, 0, 0, 0, 0, 0, 0, 5, 4, 3, 2, 0, 0, 1>>
                  [] a = "F" -> <<0, 0, 0, 0, 0, 0, 1, 7, 3, 1, 7, 3, 1, 0, 0, 0>>
                  [] a = "G" -> <<0, 0, 0, 0, 0, 0, 1, 3, 7, 1, 3, 7, 1, 3, 7, 1>>
                  [] OTHER -> <<0, 0, 0, 0, 0, 0, 0, 0, 0, 0, 0, 0, 0, 0, 0, 0>>
NzMod(a) == CASE a \in {"A", "B", "D"} -> <<11, 11>> [] a = "E" -> <<9, 11>> [] a = "F" -> <<10, 10>> [] a = "G" -> <<9, 10>> [] OTHER -> <<1, 1>>
NzOk(c) == LET a == NzAlg(c)  w == NzWeights(a)  md == NzMod(a)
           IN Sum(LAMBDA i : LET x == w[i] * D(c[i]) IN IF x > md[1] THEN x % md[1] ELSE x, 16) % md[2] = 0
TwoCenturyDate(yy, mm, dd) == NRealDate(1900 + yy, mm, dd) \/ NRealDate(2000 + yy, mm, dd)

(* ISO 7064 hybrid system MOD 37,36 as the standard states it: P(1) = 36, S(j) = P(j) mod 37 + a(j), P(j+1) = 2 * (S(j) mod 36, 0 read as 36); valid iff S(n) mod 36 = 1 *)
Iso3736Ok(c) == LET P == FoldLeft(LAMBDA q, ch : LET sj == ((q % 37) + EicVal(ch)) % 36 IN (IF sj = 0 THEN 36 ELSE sj) * 2, 36, SubSeq(c, 1, Len(c) - 1))
                IN ((P % 37) + EicVal(c[Len(c)])) % 36 = 1
IsHexU(ch) == (ch \in 48..57) \/ (ch \in 65..70)
IsAlnumU(ch) == (ch \in 48..57) \/ (ch \in 65..90)
(* ISAN: root (12 hex) episode (4 hex) [check] [version (8 hex) [check]]; judged on the cleaned form with its check characters *)
IsanOk(c) == LET n == Len(c)  Hexs(a, b) == \A i \in a..b : IsHexU(c[i])
             IN CASE n = 16 -> Hexs(1, 16)
                  [] n = 17 -> Hexs(1, 16) /\ IsAlnumU(c[17]) /\ Iso3736Ok(c)
                  [] n = 24 -> Hexs(1, 24)
                  [] n = 25 -> Hexs(1, 24) /\ IsAlnumU(c[25]) /\ Iso3736Ok(c)
                  [] n = 26 -> /\ Hexs(1, 16) /\ Hexs(18, 25) /\ IsAlnumU(c[17]) /\ IsAlnumU(c[26])
                               /\ Iso3736Ok(SubSeq(c, 1, 17)) /\ Iso3736Ok(SubSeq(c, 1, 16) \o SubSeq(c, 18, 26))
                  [] OTHER -> FALSE

(* MEID (3GPP2 S.R0048): 14 hexadecimal digits, or 18 decimal digits = manufacturer code (32 bits) and serial number (24 bits); the optional check *)
(* digit is Luhn in base 16, and Luhn in base 10 for the decimal form and for a hexadecimal form that happens to be all decimal (then it is an IMEI) *)
Luhn16Sum(c) == Sum(LAMBDA i : LET v == EicVal(c[i]) IN IF (Len(c) - i) % 2 = 1 THEN ((2 * v) \div 16) + ((2 * v) % 16) ELSE v, Len(c))
MeidOk(c) == LET n == Len(c)
             IN CASE n \in {14, 15} -> /\ \A i \in 1..n : IsHexU(c[i])
                                       /\ IF IsDigits(SubSeq(c, 1, 14)) THEN (n = 15 => (c[15] \in 48..57 /\ LuhnSum(c) % 10 = 0))
                                          ELSE (n = 15 => Luhn16Sum(c) % 16 = 0)
                  [] n \in {18, 19} -> /\ IsDigits(c) /\ (n = 19 => LuhnSum(c) % 10 = 0)
                                       /\ LexLeq(SubSeq(c, 1, 10), <<52, 50, 57, 52, 57, 54, 55, 50, 57, 53>>) /\ NumOf(c, 11, 18) < 16777216
                  [] OTHER -> FALSE

AcceptN(m, c) ==
  CASE m = "nl.bsn" -> Len(c) = 9 /\ IsDigits(c) /\ ~AllZero(c) /\ (W(c, <<9, 8, 7, 6, 5, 4, 3, 2>>) + 11 * 9 - D(c[9])) % 11 = 0
    [] m = "nl.onderwijsnummer" -> /\ Len(c) = 9 /\ IsDigits(c) /\ SubSeq(c, 1, 2) = <<49, 48>>
                                   /\ (W(c, <<9, 8, 7, 6, 5, 4, 3, 2>>) + 11 * 9 - D(c[9])) % 11 = 5
    [] m = "pl.nip" -> Len(c) = 10 /\ IsDigits(c) /\ W(c, <<6, 5, 7, 2, 3, 4, 5, 6, 7>>) % 11 = D(c[10])
    [] m = "pl.regon" -> /\ IsDigits(c) /\ Len(c) \in {9, 14}
                         /\ (W(c, <<8, 9, 2, 3, 4, 5, 6, 7>>) % 11) % 10 = D(c[9])
                         /\ (Len(c) = 14 => (W(c, <<2, 4, 8, 5, 0, 9, 7, 3, 6, 1, 2, 4, 8>>) % 11) % 10 = D(c[14]))
    [] m = "pt.nif" -> /\ Len(c) = 9 /\ IsDigits(c) /\ c[1] # 48
                       /\ LET r == (11 - (W(c, <<9, 8, 7, 6, 5, 4, 3, 2>>) % 11)) % 11 IN (IF r = 10 THEN 0 ELSE r) = D(c[9])
    [] m = "dk.cvr" -> Len(c) = 8 /\ IsDigits(c) /\ c[1] # 48 /\ W(c, <<2, 7, 6, 5, 4, 3, 2, 1>>) % 11 = 0
    [] m = "fi.alv" -> Len(c) = 8 /\ IsDigits(c) /\ W(c, <<7, 9, 10, 5, 8, 4, 2, 1>>) % 11 = 0
    [] m = "no.orgnr" -> Len(c) = 9 /\ IsDigits(c) /\ W(c, <<3, 2, 7, 6, 5, 4, 3, 2, 1>>) % 11 = 0
    [] m = "es.dni" -> EsDniOk(c)
    [] m = "ee.kmkr" -> Len(c) = 9 /\ IsDigits(c) /\ W(c, <<3, 7, 1, 3, 7, 1, 3, 7, 1>>) % 10 = 0
    [] m = "mt.vat" -> Len(c) = 8 /\ IsDigits(c) /\ c[1] # 48 /\ W(c, <<3, 4, 6, 7, 8, 9, 10, 1>>) % 37 = 0
    [] m = "lu.tva" -> Len(c) = 8 /\ IsDigits(c) /\ NumOf(c, 1, 6) % 89 = NumOf(c, 7, 8)
    [] m = "gr.vat" -> Len(c) = 9 /\ IsDigits(c) /\ (W(c, <<256, 128, 64, 32, 16, 8, 4, 2>>) % 11) % 10 = D(c[9])
    [] m = "hu.anum" -> Len(c) = 8 /\ IsDigits(c) /\ W(c, <<9, 7, 3, 1, 9, 7, 3, 1>>) % 10 = 0
    [] m = "be.vat" -> Len(c) = 10 /\ IsDigits(c) /\ ~AllZero(c) /\ (ModOf(SubSeq(c, 1, 8), 97) + NumOf(c, 9, 10)) % 97 = 0
    [] m = "si.ddv" -> /\ Len(c) = 8 /\ IsDigits(c) /\ c[1] # 48
                       /\ LET r == 11 - (W(c, <<8, 7, 6, 5, 4, 3, 2>>) % 11) IN r # 11 /\ (IF r = 10 THEN 0 ELSE r) = D(c[8])
    [] m = "at.uid" -> /\ Len(c) = 9 /\ c[1] = 85 /\ IsDigits(SubSeq(c, 2, 9))
                       /\ LET s == Sum(LAMBDA i : IF i % 2 = 0 THEN DigitSum(2 * D(c[i + 1])) ELSE D(c[i + 1]), 7)
                          IN (10 - ((s + 4) % 10)) % 10 = D(c[9])
    [] m = "br.cpf" -> /\ Len(c) = 11 /\ IsDigits(c) /\ ~AllZero(c)
                       /\ LET r1 == (W(c, <<10, 9, 8, 7, 6, 5, 4, 3, 2>>) * 10) % 11  r2 == (W(c, <<11, 10, 9, 8, 7, 6, 5, 4, 3, 2>>) * 10) % 11
                          IN (r1 % 10) = D(c[10]) /\ (r2 % 10) = D(c[11])
    [] m = "tr.tckimlik" -> /\ Len(c) = 11 /\ IsDigits(c) /\ c[1] # 48
                            /\ LET odd == D(c[1]) + D(c[3]) + D(c[5]) + D(c[7]) + D(c[9])  even == D(c[2]) + D(c[4]) + D(c[6]) + D(c[8])
                               IN (7 * odd + 9 * even) % 10 = D(c[10]) /\ (odd + even + D(c[10])) % 10 = D(c[11])
    [] m = "ch.uid" -> /\ Len(c) = 12 /\ SubSeq(c, 1, 3) = <<67, 72, 69>> /\ IsDigits(SubSeq(c, 4, 12))
                       /\ LET d == SubSeq(c, 4, 12)  r == (11 - (W(d, <<5, 4, 3, 2, 7, 6, 5, 4>>) % 11)) % 11 IN r = D(d[9])
    [] m = "it.iva" -> ItIvaOk(c)
    [] m = "se.orgnr" -> Len(c) = 10 /\ IsDigits(c) /\ Sum(LAMBDA i : IF i % 2 = 1 THEN DigitSum(2 * D(c[i])) ELSE D(c[i]), 10) % 10 = 0
    [] m = "fr.siren" -> Len(c) = 9 /\ IsDigits(c) /\ Sum(LAMBDA i : IF i % 2 = 0 THEN DigitSum(2 * D(c[i])) ELSE D(c[i]), 9) % 10 = 0
    [] m = "ca.sin" -> Len(c) = 9 /\ IsDigits(c) /\ c[1] \notin {48, 56} /\ Sum(LAMBDA i : IF i % 2 = 0 THEN DigitSum(2 * D(c[i])) ELSE D(c[i]), 9) % 10 = 0
    [] m = "il.idnr" -> Len(c) = 9 /\ IsDigits(c) /\ ~AllZero(c) /\ Sum(LAMBDA i : IF i % 2 = 0 THEN DigitSum(2 * D(c[i])) ELSE D(c[i]), 9) % 10 = 0
    [] m = "de.vat" -> Len(c) = 9 /\ IsDigits(c) /\ c[1] # 48 /\ FoldLeft(LAMBDA q, ch : ((((IF q = 0 THEN 10 ELSE q) * 2) % 11) + D(ch)) % 10, 5, c) = 1
    [] m = "hr.oib" -> Len(c) = 11 /\ IsDigits(c) /\ FoldLeft(LAMBDA q, ch : ((((IF q = 0 THEN 10 ELSE q) * 2) % 11) + D(ch)) % 10, 5, c) = 1
    [] m = "ro.cui" -> RoCuiOk(c)
    [] m = "ru.inn" -> /\ IsDigits(c) /\ Len(c) \in {10, 12}
                       /\ IF Len(c) = 10 THEN (W(c, <<2, 4, 10, 3, 5, 9, 4, 6, 8>>) % 11) % 10 = D(c[10])
                          ELSE /\ (W(c, <<7, 2, 4, 10, 3, 5, 9, 4, 6, 8>>) % 11) % 10 = D(c[11])
                               /\ (W(c, <<3, 7, 2, 4, 10, 3, 5, 9, 4, 6, 8>>) % 11) % 10 = D(c[12])
    [] m = "us.rtn" -> Len(c) = 9 /\ IsDigits(c) /\ W(c, <<3, 7, 1, 3, 7, 1, 3, 7, 1>>) % 10 = 0
    [] m = "au.abn" -> Len(c) = 11 /\ IsDigits(c) /\ (W(c, <<10, 1, 3, 5, 7, 9, 11, 13, 15, 17, 19>>) + 89 * 10 - 10) % 89 = 0
    [] m = "au.acn" -> Len(c) = 9 /\ IsDigits(c) /\ (10 - (W(c, <<8, 7, 6, 5, 4, 3, 2, 1>>) % 10)) % 10 = D(c[9])
    [] m = "au.tfn" -> /\ IsDigits(c) /\ Len(c) \in {8, 9}
                       /\ IF Len(c) = 9 THEN W(c, <<1, 4, 3, 7, 5, 8, 6, 9, 10>>) % 11 = 0 ELSE W(c, <<10, 7, 8, 4, 6, 3, 5, 1>>) % 11 = 0
    [] m = "jp.cn" -> /\ Len(c) = 13 /\ IsDigits(c)
                      /\ 9 - (Sum(LAMBDA i : (IF i % 2 = 0 THEN 1 ELSE 2) * D(c[i + 1]), 12) % 9) = D(c[1])
    [] m = "co.nit" -> /\ Len(c) >= 8 /\ Len(c) <= 16 /\ IsDigits(c)
                       /\ LET ws == <<3, 7, 13, 17, 19, 23, 29, 37, 41, 43, 47, 53, 59, 67, 71>>  n == Len(c) - 1
                              s == Sum(LAMBDA i : ws[i] * D(c[n + 1 - i]), n) % 11
                          IN (IF s < 2 THEN s ELSE 11 - s) = D(c[n + 1])
    [] m = "ar.cuit" -> /\ Len(c) = 11 /\ IsDigits(c) /\ NumOf(c, 1, 2) \in {20, 23, 24, 27, 30, 33, 34, 50, 51, 55}
                        /\ LET r == 11 - (W(c, <<5, 4, 3, 2, 7, 6, 5, 4, 3, 2>>) % 11) IN (CASE r = 11 -> 0 [] r = 10 -> 9 [] OTHER -> r) = D(c[11])
    [] m = "al.nipt" -> Len(c) = 10 /\ c[1] \in 65..77 /\ IsDigits(SubSeq(c, 2, 9)) /\ c[10] \in 65..90
    [] m = "by.unp" -> /\ Len(c) = 9 /\ IsDigits(SubSeq(c, 3, 9))
                       /\ LET L == <<65, 66, 67, 69, 72, 75, 77, 79, 80, 84>>     \* ABCEHKMOPT
                              dd == IsDigits(SubSeq(c, 1, 2))  ll == In(c[1], L) /\ In(c[2], L)
                              v2 == IF dd THEN D(c[2]) ELSE IndexIn(c[2], L) - 1
                              s == (29 * AlnumVal(c[1]) + 23 * v2 + W(SubSeq(c, 3, 8), <<19, 17, 13, 7, 5, 3>>)) % 11
                          IN (dd \/ ll) /\ In(c[1], <<49, 50, 51, 52, 53, 54, 55, 65, 66, 67, 69, 72, 75, 77>>) /\ s = D(c[9])
    [] m = "cl.rut" -> /\ Len(c) \in {8, 9} /\ IsDigits(SubSeq(c, 1, Len(c) - 1))
                       /\ LET n == Len(c) - 1  r == (11 - (WRev(c, n, <<2, 3, 4, 5, 6, 7, 2, 3>>) % 11)) % 11
                          IN c[n + 1] = (IF r = 10 THEN 75 ELSE 48 + r)
    [] m = "cy.vat" -> /\ Len(c) = 9 /\ IsDigits(SubSeq(c, 1, 8)) /\ SubSeq(c, 1, 2) # <<49, 50>>
                       /\ LET T == <<1, 0, 5, 7, 9, 13, 15, 17, 19, 21>>
                              s == Sum(LAMBDA i : IF i % 2 = 1 THEN T[D(c[i]) + 1] ELSE D(c[i]), 8)
                          IN c[9] = 65 + (s % 26)
    [] m = "ec.ci" -> EcCiOk(c)
    [] m = "ee.registrikood" -> Len(c) = 8 /\ IsDigits(c) /\ D(c[1]) \in {1, 7, 8, 9} /\ EstonianCheck(c, 7) = D(c[8])
    [] m = "gb.nhs" -> Len(c) = 10 /\ IsDigits(c) /\ W(c, <<10, 9, 8, 7, 6, 5, 4, 3, 2, 1>>) % 11 = 0
    [] m = "gb.utr" -> /\ Len(c) = 10 /\ IsDigits(c)
                       /\ LET r == W(SubSeq(c, 2, 10), <<6, 7, 8, 9, 10, 5, 4, 3, 2>>) % 11
                          IN D(c[1]) = <<2, 1, 9, 8, 7, 6, 5, 4, 3, 2, 1>>[r + 1]
    [] m = "gt.nit" -> /\ Len(c) >= 2 /\ Len(c) <= 12 /\ IsDigits(SubSeq(c, 1, Len(c) - 1))
                       /\ LET n == Len(c) - 1  r == (11 - (Sum(LAMBDA i : (i + 1) * D(c[n + 1 - i]), n) % 11)) % 11
                          IN c[n + 1] = (IF r = 10 THEN 75 ELSE 48 + r)
    [] m = "is_.vsk" -> IsDigits(c) /\ Len(c) \in {5, 6}
    [] m = "kr.brn" -> /\ Len(c) = 10 /\ IsDigits(c) /\ NumOf(c, 1, 3) >= 101 /\ NumOf(c, 4, 5) # 0 /\ NumOf(c, 6, 9) # 0
    [] m = "me.pib" -> Len(c) = 8 /\ IsDigits(c) /\ ((11 - (W(c, <<8, 7, 6, 5, 4, 3, 2>>) % 11)) % 11) % 10 = D(c[8])
    [] m = "mk.edb" -> Len(c) = 13 /\ IsDigits(c) /\ ((11 - (W(c, <<7, 6, 5, 4, 3, 2, 7, 6, 5, 4, 3, 2>>) % 11)) % 11) % 10 = D(c[13])
    [] m = "nz.ird" -> /\ Len(c) \in {8, 9} /\ IsDigits(c) /\ NumOf(c, 1, Len(c)) > 10000000 /\ NumOf(c, 1, Len(c)) < 150000000
                       /\ LET z == ZFill(SubSeq(c, 1, Len(c) - 1), 8)
                              s1 == (11 - (W(z, <<3, 2, 7, 6, 5, 4, 3, 2>>) % 11)) % 11
                              s2 == (11 - (W(z, <<7, 4, 3, 2, 5, 2, 7, 6>>) % 11)) % 11
                          IN (IF s1 # 10 THEN s1 ELSE s2) = D(c[Len(c)])
    [] m = "pe.ruc" -> /\ Len(c) = 11 /\ IsDigits(c) /\ NumOf(c, 1, 2) \in {10, 15, 17, 20}
                       /\ (11 - (W(c, <<5, 4, 3, 2, 7, 6, 5, 4, 3, 2>>) % 11)) % 10 = D(c[11])
    [] m = "py.ruc" -> /\ Len(c) >= 1 /\ Len(c) <= 9 /\ IsDigits(c)
                       /\ LET n == Len(c) - 1 IN ((11 - (Sum(LAMBDA i : (i + 1) * D(c[n + 1 - i]), n) % 11)) % 11) % 10 = D(c[n + 1])
    [] m = "rs.pib" -> Len(c) = 9 /\ IsDigits(c) /\ Iso1110(c) = 1
    [] m = "tr.vkn" -> /\ Len(c) = 10 /\ IsDigits(c)
                       /\ LET s == Sum(LAMBDA i : LET c1 == (D(c[10 - i]) + i) % 10  c2 == (c1 * (2 ^ i)) % 9
                                                  IN IF c1 = 0 THEN 0 ELSE IF c2 = 0 THEN 9 ELSE c2, 9)
                          IN (10 - (s % 10)) % 10 = D(c[10])
    [] m = "ua.edrpou" -> /\ Len(c) = 8 /\ IsDigits(c)
                          /\ LET w == IF D(c[1]) \in {3, 4, 5} THEN <<7, 1, 2, 3, 4, 5, 6>> ELSE <<1, 2, 3, 4, 5, 6, 7>>
                                 t1 == W(c, w) % 11
                                 t2 == (W(c, [i \in 1..7 |-> w[i] + 2]) % 11) % 10
                             IN (IF t1 < 10 THEN t1 ELSE t2) = D(c[8])
    [] m = "uy.rut" -> /\ Len(c) = 12 /\ IsDigits(c) /\ NumOf(c, 1, 2) \in 1..22 /\ NumOf(c, 3, 8) # 0 /\ NumOf(c, 9, 11) = 1
                       /\ (11 - (W(c, <<4, 3, 2, 9, 8, 7, 6, 5, 4, 3, 2>>) % 11)) % 11 = D(c[12])
    [] m = "ve.rif" -> /\ Len(c) = 10 /\ c[1] \in {86, 69, 74, 80, 71} /\ IsDigits(SubSeq(c, 2, 10))
                       /\ LET t == CASE c[1] = 86 -> 4 [] c[1] = 69 -> 8 [] c[1] = 74 -> 12 [] c[1] = 80 -> 16 [] c[1] = 71 -> 20
                              r == (t + W(SubSeq(c, 2, 9), <<3, 2, 7, 6, 5, 4, 3, 2>>)) % 11
                          IN (IF r < 2 THEN 0 ELSE 11 - r) = D(c[10])
    [] m = "vn.mst" -> /\ Len(c) \in {10, 13} /\ IsDigits(c) /\ NumOf(c, 3, 9) # 0 /\ (Len(c) = 13 => NumOf(c, 11, 13) # 0)
                       /\ 10 - (W(c, <<31, 29, 23, 19, 17, 13, 7, 5, 3>>) % 11) = D(c[10])
    [] m = "za.tin" -> Len(c) = 10 /\ IsDigits(c) /\ D(c[1]) \in {0, 1, 2, 3, 9} /\ LuhnSum(c) % 10 = 0
    [] m = "th.pin" -> ThPinOk(c)
    [] m = "lt.pvm" -> /\ IsDigits(c) /\ Len(c) \in {9, 12} /\ c[Len(c) - 1] = 49
                       /\ EstonianCheck(c, Len(c) - 1) = D(c[Len(c)])
    [] m = "fi.veronumero" -> Len(c) = 12 /\ IsDigits(c)
    [] m = "eg.tn" -> Len(c) = 9 /\ IsDigits(c)
    [] m = "ma.ice" -> Len(c) = 15 /\ IsDigits(c) /\ ModOf(c, 97) = 0
    [] m = "es.nie" -> EsNieOk(c)
    [] m = "es.cif" -> EsCifOk(c)
    [] m = "gb.vat" ->
         CASE Len(c) = 5 -> /\ IsDigits(SubSeq(c, 3, 5))
                            /\ \/ SubSeq(c, 1, 2) = <<71, 68>> /\ NumOf(c, 3, 5) < 500
                               \/ SubSeq(c, 1, 2) = <<72, 65>> /\ NumOf(c, 3, 5) >= 500
           [] Len(c) = 11 -> /\ SubSeq(c, 3, 6) = <<56, 56, 56, 56>> /\ IsDigits(SubSeq(c, 7, 11))
                             /\ \/ SubSeq(c, 1, 2) = <<71, 68>> /\ NumOf(c, 7, 9) < 500
                                \/ SubSeq(c, 1, 2) = <<72, 65>> /\ NumOf(c, 7, 9) >= 500
                             /\ NumOf(c, 7, 9) % 97 = NumOf(c, 10, 11)
           [] Len(c) \in {9, 12} -> /\ IsDigits(c)
                                    /\ LET cs == W(c, <<8, 7, 6, 5, 4, 3, 2, 10, 1>>) % 97
                                       IN IF NumOf(c, 1, 3) >= 100 THEN cs \in {0, 42, 55} ELSE cs = 0
           [] OTHER -> FALSE
    [] m = "fr.tva" -> FrTvaOk(c)
    [] m = "ie.pps" -> /\ Len(c) \in {8, 9} /\ IsDigits(SubSeq(c, 1, 7)) /\ c[8] \in 65..87
                       /\ (Len(c) = 9 => c[9] \in {65, 66, 72, 87, 84, 88})
                       /\ IF Len(c) = 9 /\ c[9] \in {65, 66, 72} THEN c[8] = IeCheck(SubSeq(c, 1, 7), IeLetterVal(c[9]))
                          ELSE c[8] = IeCheck(SubSeq(c, 1, 7), 0)
    [] m = "cr.cpf" -> Len(c) = 10 /\ IsDigits(c) /\ c[1] = 48
    [] m = "cr.cpj" -> /\ Len(c) = 10 /\ IsDigits(c)
                       /\ LET t == NumOf(c, 2, 4)
                          IN CASE c[1] = 50 -> t \in {100, 200, 300, 400}
                               [] c[1] = 51 -> t \in (2..14) \cup (101..110)
                               [] c[1] = 52 -> t = 0
                               [] c[1] = 53 -> t = 1
                               [] OTHER -> FALSE
    [] m = "do.rnc" -> /\ IsDigits(c)
                       /\ \/ Len(c) <= 9 /\ <<Len(c), NumOf(c, 1, Len(c))>> \in
                                {<<9, 101581601>>, <<9, 101582245>>, <<9, 101595422>>, <<9, 101595785>>, <<8, 10233317>>, <<9, 131188691>>,
                                 <<9, 401007374>>, <<9, 501341601>>, <<9, 501378067>>, <<9, 501620371>>, <<9, 501651319>>, <<9, 501651823>>,
                                 <<9, 501651845>>, <<9, 501651926>>, <<9, 501656006>>, <<9, 501658167>>, <<9, 501670785>>, <<9, 501676936>>,
                                 <<9, 501680158>>, <<9, 504654542>>, <<9, 504680029>>, <<9, 504681442>>, <<9, 505038691>>}
                          \/ Len(c) = 9 /\ ((10 - (W(c, <<7, 9, 8, 6, 5, 4, 3, 2>>) % 11)) % 9) + 1 = D(c[9])
    [] m = "fi.associationid" -> /\ IsDigits(c) /\ Len(c) >= 1 /\ Len(c) <= 6
                                 /\ (Len(c) < 3 => NumOf(c, 1, Len(c)) \in {1, 6, 7, 9, 12, 14, 15, 16, 18, 22, 23, 24, 27, 28, 29, 35, 36, 38, 40, 41, 42,
                                        43, 45, 46, 50, 52, 55, 58, 60, 64, 65, 68, 72, 75, 76, 77, 78, 83, 84, 85, 89, 92})
    [] m = "fr.siret" -> /\ Len(c) = 14 /\ IsDigits(c) /\ SirenOk(SubSeq(c, 1, 9))
                         /\ IF NumOf(c, 1, 9) = 356000000 /\ ~(NumOf(c, 10, 14) = 48)
                            THEN DigitTotal(c) % 5 = 0 ELSE LuhnSum(c) % 10 = 0
    [] m = "in_.pan" -> InPanOk(c)
    [] m = "ke.pin" -> Len(c) = 11 /\ c[1] \in {65, 80} /\ IsDigits(SubSeq(c, 2, 10)) /\ c[11] \in 65..90
    [] m = "li.peid" -> Len(c) >= 4 /\ Len(c) <= 12 /\ IsDigits(c)
    [] m = "md.idno" -> Len(c) = 13 /\ IsDigits(c) /\ W(c, <<7, 3, 1, 7, 3, 1, 7, 3, 1, 7, 3, 1>>) % 10 = D(c[13])
    [] m = "nl.btw" -> /\ Len(c) = 12 /\ IsDigits(SubSeq(c, 1, 9)) /\ ~AllZero(SubSeq(c, 1, 9)) /\ c[10] = 66
                       /\ IsDigits(SubSeq(c, 11, 12)) /\ ~AllZero(SubSeq(c, 11, 12))
                       /\ (BsnOk(SubSeq(c, 1, 9)) \/ Mod97Alnum(<<78, 76>> \o c) = 1)
    [] m = "no.mva" -> Len(c) = 12 /\ SubSeq(c, 10, 12) = <<77, 86, 65>> /\ OrgnrOk(SubSeq(c, 1, 9))
    [] m = "ar.dni" -> IsDigits(c) /\ Len(c) \in {7, 8}
    [] m = "ar.cbu" -> /\ Len(c) = 22 /\ IsDigits(c)
                       /\ (10 - (WRev(c, 7, <<3, 1, 7, 9, 3, 1, 7>>) % 10)) % 10 = D(c[8])
                       /\ (10 - (WRev(SubSeq(c, 9, 21), 13, <<3, 1, 7, 9, 3, 1, 7, 9, 3, 1, 7, 9, 3>>) % 10)) % 10 = D(c[22])
    [] m = "at.businessid" -> Len(c) >= 2 /\ IsDigits(SubSeq(c, 1, Len(c) - 1)) /\ c[Len(c)] \in 97..122
    [] m = "at.vnr" -> Len(c) = 10 /\ IsDigits(c) /\ c[1] # 48 /\ W(c, <<3, 7, 9, 0, 5, 8, 4, 2, 1, 6>>) % 11 = D(c[4])
    [] m = "br.cnpj" -> /\ Len(c) = 14 /\ IsDigits(c) /\ ~AllZero(c)
                        /\ LET d1 == ((11 - (W(c, <<5, 4, 3, 2, 9, 8, 7, 6, 5, 4, 3, 2>>) % 11)) % 11) % 10
                               d2 == ((11 - ((W(c, <<6, 5, 4, 3, 2, 9, 8, 7, 6, 5, 4, 3>>) + 2 * d1) % 11)) % 11) % 10
                           IN d1 = D(c[13]) /\ d2 = D(c[14])
    [] m = "ca.bn" -> /\ Len(c) \in {9, 15} /\ IsDigits(SubSeq(c, 1, 9)) /\ LuhnSum(SubSeq(c, 1, 9)) % 10 = 0
                      /\ (Len(c) = 15 => (c[10] = 82 /\ c[11] \in {67, 77, 80, 84} /\ IsDigits(SubSeq(c, 12, 15))))
    [] m = "ca.bc_phn" -> /\ Len(c) = 10 /\ IsDigits(c) /\ c[1] = 57
                          /\ LET w == <<2, 4, 8, 5, 10, 9, 7, 3>>  s == Sum(LAMBDA i : (w[i] * D(c[i + 1])) % 11, 8)
                             IN (11 - (s % 11)) % 11 = D(c[10])
    [] m = "ch.esr" -> /\ Len(c) >= 1 /\ Len(c) <= 27 /\ IsDigits(c)
                       /\ LET T == <<0, 9, 4, 6, 8, 2, 7, 1, 3, 5>>
                              carry == FoldLeft(LAMBDA q, ch : T[((D(ch) + q) % 10) + 1], 0, SubSeq(c, 1, Len(c) - 1))
                          IN (10 - carry) % 10 = D(c[Len(c)])
    [] m = "ch.vat" -> /\ Len(c) \in {15, 16} /\ ChUidOk(SubSeq(c, 1, 12))
                       /\ SubSeq(c, 13, Len(c)) \in {<<77, 87, 83, 84>>, <<84, 86, 65>>, <<73, 86, 65>>, <<84, 80, 86>>}
    [] m = "cn.uscc" -> /\ Len(c) = 18 /\ IsDigits(SubSeq(c, 1, 8)) /\ (\A i \in 9..18 : In(c[i], UsccAlphabet))
                        /\ LET w == <<1, 3, 9, 27, 19, 26, 16, 17, 20, 29, 25, 13, 8, 24, 10, 30, 28>>
                               t == Sum(LAMBDA i : (IndexIn(c[i], UsccAlphabet) - 1) * w[i], 17)
                           IN c[18] = UsccAlphabet[((31 - (t % 31)) % 31) + 1]
    [] m = "cr.cr" -> Len(c) \in {11, 12} /\ IsDigits(c) /\ c[1] = 49
    [] m = "de.idnr" -> /\ Len(c) = 11 /\ IsDigits(c) /\ c[1] # 48 /\ Iso1110(c) = 1
                        /\ LET f == SubSeq(c, 1, 10)  rep == {d \in 48..57 : Count(d, f) > 1}
                           IN Cardinality(rep) = 1 /\ (\A d \in rep : Count(d, f) \in {2, 3})
    [] m = "de.wkn" -> Len(c) = 6 /\ (\A i \in 1..6 : (c[i] \in 48..57) \/ (c[i] \in 65..90 /\ c[i] \notin {73, 79}))
    [] m = "dz.nif" -> IsDigits(c) /\ Len(c) \in {15, 20}
    [] m = "eu.banknote" -> /\ Len(c) = 12 /\ (\A i \in 1..2 : (c[i] \in 48..57) \/ (c[i] \in 65..90)) /\ IsDigits(SubSeq(c, 3, 12))
                            /\ In(c[1], <<66, 67, 68, 69, 70, 71, 72, 74, 76, 77, 78, 80, 82, 83, 84, 85, 86, 87, 88, 89, 90>>)
                            /\ Sum(LAMBDA i : IF c[i] <= 57 THEN D(c[i]) ELSE c[i], 12) % 9 = 0
    [] m = "eu.eic" -> /\ Len(c) = 16 /\ (\A i \in 1..16 : (c[i] \in 48..57) \/ (c[i] \in 65..90) \/ c[i] = 45) /\ c[16] # 45
                       /\ LET t == Sum(LAMBDA i : (17 - i) * EicVal(c[i]), 15)  k == 36 - ((t + 36) % 37)
                          IN EicVal(c[16]) = k
    [] m = "fo.vn" -> Len(c) = 6 /\ IsDigits(c)
    [] m = "ec.ruc" -> /\ Len(c) = 13 /\ IsDigits(c) /\ NumOf(c, 1, 2) \in (1..24) \cup {30, 50}
                       /\ LET natural == NumOf(c, 11, 13) # 0 /\ EcCiOk(SubSeq(c, 1, 10))
                              public == NumOf(c, 10, 13) # 0 /\ W(c, <<3, 2, 7, 6, 5, 4, 3, 2, 1>>) % 11 = 0
                              juridical == NumOf(c, 11, 13) # 0 /\ W(c, <<4, 3, 2, 7, 6, 5, 4, 3, 2, 1>>) % 11 = 0
                          IN CASE D(c[3]) < 6 -> natural [] D(c[3]) = 6 -> public \/ natural [] D(c[3]) = 9 -> public \/ juridical [] OTHER -> FALSE
    [] m = "es.ccc" -> /\ Len(c) = 20 /\ IsDigits(c)
                       /\ D(c[9]) = EsCccDigit(<<48, 48>> \o SubSeq(c, 1, 8)) /\ D(c[10]) = EsCccDigit(SubSeq(c, 11, 20))
    [] m = "es.postal_code" -> Len(c) = 5 /\ IsDigits(c) /\ NumOf(c, 1, 2) \in 1..52
    [] m = "eu.ecnumber" -> /\ Len(c) = 9 /\ c[4] = 45 /\ c[8] = 45 /\ IsDigits(SubSeq(c, 1, 3) \o SubSeq(c, 5, 7) \o <<c[9]>>)
                            /\ LET d == SubSeq(c, 1, 3) \o SubSeq(c, 5, 7) IN W(d, <<1, 2, 3, 4, 5, 6>>) % 11 = D(c[9])
    [] m = "eu.oss" -> /\ \/ Len(c) = 11 /\ SubSeq(c, 1, 2) = <<69, 85>>
                          \/ Len(c) = 12 /\ SubSeq(c, 1, 2) = <<73, 77>>
                       /\ IsDigits(SubSeq(c, 3, Len(c)))
                       /\ NumOf(c, 3, 5) \in {40, 56, 100, 191, 196, 203, 208, 233, 246, 250, 276, 300, 348, 372, 380, 428, 440, 442, 470, 528,
                                              616, 620, 642, 703, 705, 724, 752, 900}
    [] m = "gh.tin" -> /\ Len(c) = 11 /\ c[1] \in {80, 67, 71, 81, 86} /\ c[2] = 48 /\ c[3] = 48 /\ IsDigits(SubSeq(c, 4, 10))
                       /\ LET r == Sum(LAMBDA i : i * D(c[i + 1]), 9) % 11 IN c[11] = (IF r = 10 THEN 88 ELSE 48 + r)
    [] m = "gn.nifp" -> Len(c) = 9 /\ IsDigits(c) /\ LuhnSum(c) % 10 = 0
    [] m = "il.hp" -> Len(c) = 9 /\ IsDigits(c) /\ c[1] = 53 /\ LuhnSum(c) % 10 = 0
    [] m = "in_.aadhaar" -> Len(c) = 12 /\ IsDigits(c) /\ D(c[1]) >= 2 /\ ~Palindrome(c) /\ VerhoeffOk(c)
    [] m = "in_.vid" -> Len(c) = 16 /\ IsDigits(c) /\ D(c[1]) >= 2 /\ ~Palindrome(c) /\ VerhoeffOk(c)
    [] m = "in_.epic" -> /\ Len(c) = 10 /\ (\A i \in 1..3 : c[i] \in 65..90) /\ IsDigits(SubSeq(c, 4, 10)) /\ LuhnSum(SubSeq(c, 4, 10)) % 10 = 0
    [] m = "it.aic" -> IF Len(c) = 6
                       THEN /\ \A i \in 1..6 : In(c[i], AicBase32)
                            /\ LET n == FoldLeft(LAMBDA acc, ch : 32 * acc + (IndexIn(ch, AicBase32) - 1), 0, c)
                               IN n < 1000000000 /\ AicBase10Ok(Dec9(n))
                       ELSE AicBase10Ok(c)
    [] m = "mc.tva" -> Len(c) = 13 /\ SubSeq(c, 1, 2) = <<70, 82>> /\ FrTvaOk(SubSeq(c, 3, 13)) /\ SubSeq(c, 5, 7) = <<48, 48, 48>>
    [] m = "nl.postcode" -> /\ Len(c) = 6 /\ D(c[1]) >= 1 /\ IsDigits(SubSeq(c, 1, 4)) /\ c[5] \in 65..90 /\ c[6] \in 65..90
                            /\ SubSeq(c, 5, 6) \notin {<<83, 65>>, <<83, 68>>, <<83, 83>>}
    [] m = "nl.brin" -> /\ Len(c) \in {4, 6} /\ IsDigits(SubSeq(c, 1, 2)) /\ c[3] \in 65..90 /\ c[4] \in 65..90
                        /\ (Len(c) = 6 => IsDigits(SubSeq(c, 5, 6)))
    [] m = "nl.identiteitskaartnummer" -> /\ Len(c) = 9 /\ c[1] \in 65..90 /\ c[2] \in 65..90 /\ c[9] \in 48..57
                                          /\ (\A i \in 3..8 : (c[i] \in 48..57) \/ (c[i] \in 65..90)) /\ ~In(79, c)
    [] m = "no.kontonr" -> /\ IsDigits(c)
                           /\ \/ Len(c) = 7 /\ LuhnSum(c) % 10 = 0
                              \/ Len(c) = 11 /\ (11 - (W(c, <<5, 4, 3, 2, 7, 6, 5, 4, 3, 2>>) % 11)) % 11 = D(c[11])
    [] m = "pk.cnic" -> Len(c) = 13 /\ IsDigits(c) /\ c[13] # 48 /\ D(c[1]) \in 1..7
    [] m = "ad.nrt" -> /\ Len(c) = 8 /\ In(c[1], <<65, 67, 68, 69, 70, 71, 76, 79, 80, 85>>) /\ c[8] \in 65..90 /\ IsDigits(SubSeq(c, 2, 7))
                       /\ (c[1] = 70 => NumOf(c, 2, 7) <= 699999)
                       /\ (c[1] \in {65, 76} => (NumOf(c, 2, 7) > 699999 /\ NumOf(c, 2, 7) < 800000))
    [] m = "bg.pnf" -> BgPnfOk(c)
    [] m = "do.ncf" -> CASE Len(c) = 13 -> c[1] = 69 /\ IsDigits(SubSeq(c, 2, 13)) /\ NumOf(c, 2, 3) \in {31, 32, 33, 34, 41, 43, 44, 45, 46, 47}
                         [] Len(c) = 11 -> c[1] = 66 /\ IsDigits(SubSeq(c, 2, 11)) /\ NumOf(c, 2, 3) \in {1, 2, 3, 4, 11, 12, 13, 14, 15, 16, 17}
                         [] Len(c) = 19 -> c[1] \in {65, 80} /\ IsDigits(SubSeq(c, 2, 19)) /\ NumOf(c, 10, 11) \in {1, 2, 3, 4, 11, 12, 13, 14, 15, 16, 17}
                         [] OTHER -> FALSE
    [] m = "es.cae" -> /\ Len(c) = 13 /\ SubSeq(c, 1, 5) = <<69, 83, 48, 48, 48>> /\ IsDigits(SubSeq(c, 6, 7)) /\ NumOf(c, 6, 7) \in 1..56
                       /\ SubSeq(c, 8, 9) \in EsCaeActivities /\ IsDigits(SubSeq(c, 10, 12)) /\ c[13] \in 65..90
    [] m = "fi.ytunnus" -> Len(c) = 8 /\ IsDigits(c) /\ W(c, <<7, 9, 10, 5, 8, 4, 2, 1>>) % 11 = 0
    [] m = "fr.nif" -> Len(c) = 13 /\ IsDigits(c) /\ D(c[1]) <= 3 /\ ModOf(SubSeq(c, 1, 10), 511) = NumOf(c, 11, 13)
    [] m = "gb.upn" -> /\ Len(c) = 13 /\ IsDigits(SubSeq(c, 2, 12)) /\ In(c[13], UpnAlphabet) /\ NumOf(c, 2, 4) \in GbLaNumbers
                       /\ LET r == Sum(LAMBDA i : (i + 1) * (IndexIn(c[i + 1], UpnAlphabet) - 1), 12) % 23 IN c[1] = UpnAlphabet[r + 1]
    [] m = "ie.vat" -> /\ Len(c) \in {8, 9} /\ c[1] \in 48..57 /\ IsDigits(SubSeq(c, 3, 7)) /\ (\A i \in 8..Len(c) : IeAlpha(c[i]))
                       /\ IF c[2] \in 48..57
                          THEN c[8] = IeCheck(SubSeq(c, 1, 7), IF Len(c) = 9 THEN IeLetterVal(c[9]) ELSE 0)
                          ELSE (c[2] \in 65..90 \/ c[2] \in {43, 42}) /\ c[8] = IeCheck(<<48>> \o SubSeq(c, 3, 7) \o <<c[1]>>, 0)
    [] m = "pe.cui" -> /\ Len(c) \in {8, 9} /\ IsDigits(SubSeq(c, 1, 8))
                       /\ (Len(c) = 9 => LET r == W(c, <<3, 2, 7, 6, 5, 4, 3, 2>>) % 11
                                         IN c[9] = <<54, 53, 52, 51, 50, 49, 49, 48, 57, 56, 55>>[r + 1] \/ c[9] = <<75, 74, 73, 72, 71, 70, 69, 68, 67, 66, 65>>[r + 1])
    [] m = "pt.cc" -> /\ Len(c) = 12 /\ c[Len(c)] \in 48..57 /\ IsDigits(SubSeq(c, 1, Len(c) - 3))
                      /\ (\A i \in (Len(c) - 2)..(Len(c) - 1) : (c[i] \in 48..57) \/ (c[i] \in 65..90))
                      /\ LET n == Len(c) - 1
                             s == Sum(LAMBDA i : LET v == EicVal(c[n + 1 - i]) IN IF i % 2 = 1 THEN (IF 2 * v > 9 THEN 2 * v - 9 ELSE 2 * v) ELSE v, n)
                         IN (10 - (s % 10)) % 10 = D(c[n + 1])
    [] m = "ru.ogrn" -> /\ IsDigits(c)
                        /\ \/ Len(c) = 13 /\ c[1] # 48 /\ ModOf(SubSeq(c, 1, 12), 11) % 10 = D(c[13])
                           \/ Len(c) = 15 /\ c[1] \in {51, 52} /\ ModOf(SubSeq(c, 1, 14), 13) = D(c[15])
    [] m = "se.postnummer" -> Len(c) = 5 /\ IsDigits(c) /\ c[1] # 48
    [] m = "se.vat" -> Len(c) = 12 /\ IsDigits(c) /\ SubSeq(c, 11, 12) = <<48, 49>> /\ LuhnSum(SubSeq(c, 1, 10)) % 10 = 0
    [] m = "si.maticna" -> /\ Len(c) \in {7, 10} /\ IsDigits(SubSeq(c, 1, 6))
                           /\ (Len(c) = 10 => (((c[8] \in 48..57) \/ (c[8] \in 65..90)) /\ IsDigits(SubSeq(c, 9, 10))))
                           /\ LET r == (11 - (W(c, <<7, 6, 5, 4, 3, 2>>) % 11)) % 11 IN r # 0 /\ c[7] = 48 + (r % 10)
    [] m = "sm.coe" -> /\ Len(c) >= 1 /\ Len(c) <= 5 /\ IsDigits(c)
                       /\ (Len(c) < 3 => NumOf(c, 1, Len(c)) \in {2, 4, 6, 7, 8, 9, 10, 11, 13, 16, 18, 19, 20, 21, 25, 26, 30, 32, 33, 35, 36, 37, 38, 39,
                              40, 42, 45, 47, 49, 51, 52, 55, 56, 57, 58, 59, 61, 62, 64, 65, 66, 67, 68, 69, 70, 71, 72, 73, 74, 75, 76, 79, 80, 81,
                              84, 85, 87, 88, 91, 92, 94, 95, 96, 97, 99})
    [] m = "sv.nit" -> /\ Len(c) = 14 /\ IsDigits(c) /\ D(c[1]) \in {0, 1, 9}
                       /\ IF NumOf(c, 11, 13) <= 100
                          THEN (W(c, <<14, 13, 12, 11, 10, 9, 8, 7, 6, 5, 4, 3, 2>>) % 11) % 10 = D(c[14])
                          ELSE ((11 - (W(c, <<2, 7, 6, 5, 4, 3, 2, 7, 6, 5, 4, 3, 2>>) % 11)) % 11) % 10 = D(c[14])
    [] m = "th.moa" -> ThMoaOk(c)
    [] m = "bg.egn" -> BgEgnOk(c)
    [] m = "cu.ni" -> /\ Len(c) = 11 /\ IsDigits(c)
                      /\ NRealDate((IF c[7] = 57 THEN 1800 ELSE IF c[7] <= 53 THEN 1900 ELSE 2000) + NumOf(c, 1, 2), NumOf(c, 3, 4), NumOf(c, 5, 6))
    [] m \in {"cz.rc", "sk.rc"} -> RcOk(c)
    [] m = "lt.asmens" -> /\ Len(c) = 11 /\ IsDigits(c) /\ EstonianCheck(c, 10) = D(c[11])
                          /\ (c[1] # 57 => (/\ c[1] \in 49..56
                                            /\ NRealDate(1800 + 100 * ((D(c[1]) - 1) \div 2) + NumOf(c, 2, 3), NumOf(c, 4, 5), NumOf(c, 6, 7))))
    [] m = "ro.cnp" -> RoCnpOk(c)
    [] m = "kr.rrn" -> /\ Len(c) = 13 /\ IsDigits(c) /\ NumOf(c, 8, 9) <= 96
                       /\ NRealDate((CASE D(c[7]) \in {1, 2, 5, 6} -> 1900 [] D(c[7]) \in {3, 4, 7, 8} -> 2000 [] OTHER -> 1800) + NumOf(c, 1, 2), NumOf(c, 3, 4), NumOf(c, 5, 6))
                       /\ (11 - (W(c, <<2, 3, 4, 5, 6, 7, 8, 9, 2, 3, 4, 5>>) % 11)) % 10 = D(c[13])
    [] m = "gr.amka" -> /\ Len(c) = 11 /\ IsDigits(c) /\ LuhnSum(c) % 10 = 0
                        /\ (NRealDate(1900 + NumOf(c, 5, 6), NumOf(c, 3, 4), NumOf(c, 1, 2)) \/ NRealDate(2000 + NumOf(c, 5, 6), NumOf(c, 3, 4), NumOf(c, 1, 2)))
    [] m = "is_.kennitala" -> /\ Len(c) = 10 /\ IsDigits(c) /\ D(c[1]) <= 7 /\ D(c[3]) <= 1 /\ c[10] \in {48, 57}
                              /\ LET dd == NumOf(c, 1, 2)
                                 IN NRealDate((IF c[10] = 57 THEN 1900 ELSE 2000) + NumOf(c, 5, 6), NumOf(c, 3, 4), IF dd >= 40 THEN dd - 40 ELSE dd)
                              /\ W(c, <<3, 2, 7, 6, 5, 4, 3, 2, 1, 0>>) % 11 = 0
    [] m = "es.cups" -> /\ Len(c) \in {20, 22} /\ SubSeq(c, 1, 2) = <<69, 83>> /\ IsDigits(SubSeq(c, 3, 18))
                        /\ (Len(c) = 22 => (c[21] \in 48..57 /\ In(c[22], <<70, 80, 82, 67, 88, 89, 90>>)))
                        /\ LET n == ModOf(SubSeq(c, 3, 18), 529) IN c[19] = CupsLetters[(n \div 23) + 1] /\ c[20] = CupsLetters[(n % 23) + 1]
    [] m = "es.nif" -> /\ Len(c) = 9 /\ IsDigits(SubSeq(c, 2, 8))
                       /\ CASE c[1] \in {75, 76, 77} -> c[9] = DniLetters[ModOf(SubSeq(c, 2, 8), 23) + 1]
                            [] c[1] \in 48..57 -> EsDniOk(c)
                            [] c[1] \in {88, 89, 90} -> EsNieOk(c)
                            [] OTHER -> EsCifOk(c)
    [] m = "es.referenciacatastral" -> /\ Len(c) = 20 /\ (\A i \in 1..20 : (c[i] \in 48..57) \/ (c[i] \in 65..90))
                                       /\ c[19] = CatCheck(SubSeq(c, 1, 7) \o SubSeq(c, 15, 18))
                                       /\ c[20] = CatCheck(SubSeq(c, 8, 14) \o SubSeq(c, 15, 18))
    [] m = "fr.nir" -> /\ Len(c) = 15 /\ IsDigits(SubSeq(c, 1, 5)) /\ IsDigits(SubSeq(c, 8, 15))
                       /\ (IsDigits(SubSeq(c, 6, 7)) \/ SubSeq(c, 6, 7) \in {<<50, 65>>, <<50, 66>>})
                       /\ LET dep == IF SubSeq(c, 6, 7) = <<50, 65>> THEN <<49, 57>> ELSE IF SubSeq(c, 6, 7) = <<50, 66>> THEN <<49, 56>> ELSE SubSeq(c, 6, 7)
                          IN 97 - ModOf(SubSeq(c, 1, 5) \o dep \o SubSeq(c, 8, 13), 97) = NumOf(c, 14, 15)
    [] m = "in_.gstin" -> /\ Len(c) = 15 /\ IsDigits(SubSeq(c, 1, 2)) /\ NumOf(c, 1, 2) \in 1..37
                          /\ (\A i \in 13..15 : (c[i] \in 48..57) \/ (c[i] \in 65..90)) /\ c[13] # 48 /\ c[14] = 90
                          /\ InPanOk(SubSeq(c, 3, 12)) /\ Luhn36Sum(c) % 36 = 0
    [] m = "si.emso" -> /\ Len(c) = 13 /\ IsDigits(c)
                        /\ LET yyy == NumOf(c, 5, 7) IN NRealDate((IF yyy < 800 THEN 2000 ELSE 1000) + yyy, NumOf(c, 3, 4), NumOf(c, 1, 2))
                        /\ ((11 - (W(c, <<7, 6, 5, 4, 3, 2, 7, 6, 5, 4, 3, 2>>) % 11)) % 11) % 10 = D(c[13])
    [] m = "tn.mf" -> /\ Len(c) \in {8, 13} /\ IsDigits(SubSeq(c, 1, 7)) /\ c[8] \in 65..90 /\ c[8] \notin {73, 79, 85}
                      /\ (Len(c) = 13 => (/\ In(c[9], <<65, 80, 66, 68, 78>>) /\ In(c[10], <<77, 80, 67, 78, 69>>) /\ IsDigits(SubSeq(c, 11, 13))
                                          /\ (NumOf(c, 11, 13) = 0 \/ c[10] = 69)))
    [] m = "tw.ubn" -> /\ Len(c) = 8 /\ IsDigits(c)
                       /\ LET cs == Sum(LAMBDA i : DigitSum(<<1, 2, 1, 2, 1, 2, 4, 1>>[i] * D(c[i])), 8) % 10 IN cs = 0 \/ (cs = 9 /\ c[7] = 55)
    [] m = "ua.rntrc" -> Len(c) = 10 /\ IsDigits(c) /\ (W(c, <<10, 5, 7, 9, 4, 6, 10, 5, 7>>) % 11) % 10 = D(c[10])
    [] m = "us.ptin" -> Len(c) = 9 /\ c[1] \in {80, 112} /\ IsDigits(SubSeq(c, 2, 9))
    [] m = "bg.vat" -> /\ IsDigits(c)
                       /\ \/ /\ Len(c) = 9
                             /\ LET s1 == Sum(LAMBDA i : i * D(c[i]), 8) % 11  s2 == Sum(LAMBDA i : (i + 2) * D(c[i]), 8) % 11
                                IN ((IF s1 = 10 THEN s2 ELSE s1) % 10) = D(c[9])
                          \/ /\ Len(c) = 10
                             /\ (BgEgnOk(c) \/ BgPnfOk(c) \/ (11 - (W(c, <<4, 3, 2, 7, 6, 5, 4, 3, 2>>) % 11)) % 11 = D(c[10]))
    [] m = "cz.dic" -> /\ IsDigits(c)
                       /\ CASE Len(c) = 8 -> /\ c[1] # 57
                                             /\ LET r == (11 - (W(c, <<8, 7, 6, 5, 4, 3, 2>>) % 11)) % 11 IN ((IF r = 0 THEN 1 ELSE r) % 10) = D(c[8])
                            [] Len(c) = 9 /\ c[1] = 54 -> LET chk == W(SubSeq(c, 2, 8), <<8, 7, 6, 5, 4, 3, 2>>) % 11
                                                          IN (18 - ((10 - chk) % 11)) % 10 = D(c[9])
                            [] Len(c) \in {9, 10} -> RcOk(c)
                            [] OTHER -> FALSE
    [] m = "sk.dph" -> /\ Len(c) = 10 /\ IsDigits(c)
                       /\ (RcOk(c) \/ (c[1] # 48 /\ D(c[3]) \in {2, 3, 4, 7, 8, 9} /\ ModOf(c, 11) = 0))
    [] m = "ro.cf" -> LET cn == IF Len(c) >= 2 /\ SubSeq(c, 1, 2) = <<82, 79>> THEN SubSeq(c, 3, Len(c)) ELSE c
                      IN IF Len(cn) = 13 THEN RoCnpOk(cn) ELSE RoCuiOk(cn)
    [] m = "th.tin" -> ThMoaOk(c) \/ ThPinOk(c)
    [] m = "it.codicefiscale" ->
         IF Len(c) = 11 THEN ItIvaOk(c)
         ELSE /\ Len(c) = 16 /\ (\A i \in (1..6) \cup {12, 16} : c[i] \in 65..90) /\ (\A i \in {7, 8, 10, 11, 13, 14, 15} : IsOmo(c[i]))
              /\ In(c[9], CfMonths)
              /\ c[16] = 65 + (Sum(LAMBDA i : CfVal(c[i], i % 2 = 1), 15) % 26)
              /\ LET yy == 10 * OmoDigit(c[7]) + OmoDigit(c[8])  dd == 10 * OmoDigit(c[10]) + OmoDigit(c[11])
                     day == IF dd > 40 THEN dd - 40 ELSE dd
                 IN (dd \in 1..31 \/ dd \in 41..71) /\ NRealDate((IF yy >= 20 THEN 1900 ELSE 2000) + yy, IndexIn(c[9], CfMonths), day)
    [] m = "mu.nid" -> /\ Len(c) = 14 /\ c[1] \in 65..90 /\ IsDigits(SubSeq(c, 2, 13)) /\ ((c[14] \in 48..57) \/ (c[14] \in 65..90))
                       /\ EicVal(c[14]) = (17 - (Sum(LAMBDA i : (15 - i) * EicVal(c[i]), 13) % 17)) % 17
                       /\ NRealDate(2000 + NumOf(c, 6, 7), NumOf(c, 4, 5), NumOf(c, 2, 3))
    [] m = "eu.at_02" -> /\ Len(c) >= 1 /\ (\A i \in 1..Len(c) : (c[i] \in 48..57) \/ (c[i] \in 65..90))
                         /\ LET t == (IF Len(c) >= 8 THEN SubSeq(c, 8, Len(c)) ELSE <<>>) \o SubSeq(c, 1, IF Len(c) < 4 THEN Len(c) ELSE 4)
                            IN Mod97Alnum(t) = 1
    [] m = "mx.rfc" -> CASE Len(c) \in {10, 13} -> /\ (\A i \in 1..4 : MxLetter(c[i])) /\ IsDigits(SubSeq(c, 5, 10))
                                                  /\ (\A i \in 11..Len(c) : (c[i] \in 48..57) \/ (c[i] \in 65..90))
                                                  /\ SubSeq(c, 1, 4) \notin MxRfcBlacklist
                                                  /\ NRealDate(2000 + NumOf(c, 5, 6), NumOf(c, 7, 8), NumOf(c, 9, 10))
                         [] Len(c) = 12 -> /\ (\A i \in 1..3 : MxLetter(c[i])) /\ IsDigits(SubSeq(c, 4, 9))
                                           /\ (\A i \in 10..12 : (c[i] \in 48..57) \/ (c[i] \in 65..90))
                                           /\ NRealDate(2000 + NumOf(c, 4, 5), NumOf(c, 6, 7), NumOf(c, 8, 9))
                         [] OTHER -> FALSE
    [] m = "mx.curp" -> /\ Len(c) = 18 /\ (\A i \in (1..4) \cup (11..16) : c[i] \in 65..90) /\ IsDigits(SubSeq(c, 5, 10))
                        /\ ((c[17] \in 48..57) \/ (c[17] \in 65..90)) /\ c[18] \in 48..57
                        /\ SubSeq(c, 1, 4) \notin MxCurpBlacklist
                        /\ NRealDate((IF c[17] <= 57 THEN 1900 ELSE 2000) + NumOf(c, 5, 6), NumOf(c, 7, 8), NumOf(c, 9, 10))
                        /\ c[11] \in {72, 77} /\ SubSeq(c, 12, 13) \in MxStates
                        /\ (10 - (Sum(LAMBDA i : MxCurpVal(c[i]) * (19 - i), 17) % 10)) % 10 = D(c[18])
    [] m = "iso6346" -> /\ Len(c) = 11 /\ (\A i \in 1..3 : (c[i] \in 48..57) \/ (c[i] \in 65..90)) /\ c[4] \in {85, 74, 90, 82}
                        /\ IsDigits(SubSeq(c, 5, 11))
                        /\ (Sum(LAMBDA i : IsoVal(c[i]) * (2 ^ (i - 1)), 10) % 11) % 10 = D(c[11])
    [] m = "isan" -> IsanOk(c)
    [] m = "meid" -> MeidOk(c)
    [] m = "be.eid" -> /\ Len(c) = 12 /\ IsDigits(c) /\ ~AllZero(c)
                       /\ LET r == ModOf(SubSeq(c, 1, 10), 97) IN NumOf(c, 11, 12) = (IF r = 0 THEN 97 ELSE r)
    [] m = "de.stnr" -> /\ IsDigits(c) /\ Len(c) \in {10, 11, 13}
                        /\ (Len(c) = 13 => (c[5] = 48 /\ (c[1] \in {53, 57} \/ NumOf(c, 1, 2) \in {10, 11, 21, 22, 23, 24, 26, 27, 28, 30, 31, 32, 40, 41})))

(* checksum parts of formats with further rules *)
NecessaryN(m, c) ==
  CASE m = "no.fodselsnummer" -> /\ Len(c) = 11 /\ IsDigits(c)
                                 /\ (11 - (W(c, <<3, 7, 6, 1, 8, 9, 4, 5, 2>>) % 11)) % 11 = D(c[10])
                                 /\ (11 - (W(c, <<5, 4, 3, 2, 7, 6, 5, 4, 3, 2>>) % 11)) % 11 = D(c[11])
    [] m = "fi.hetu" -> /\ Len(c) = 11 /\ IsDigits(SubSeq(c, 1, 6)) /\ IsDigits(SubSeq(c, 8, 10))
                        /\ c[11] = <<48,49,50,51,52,53,54,55,56,57,65,66,67,68,69,70,72,74,75,76,77,78,80,82,83,84,85,86,87,88,89>>[ModOf(SubSeq(c, 1, 6) \o SubSeq(c, 8, 10), 31) + 1]
    [] m = "ch.ssn" -> /\ Len(c) = 13 /\ IsDigits(c) /\ SubSeq(c, 1, 3) = <<55, 53, 54>>
                       /\ Sum(LAMBDA i : (IF i % 2 = 1 THEN 1 ELSE 3) * D(c[i]), 13) % 10 = 0
    [] m = "lv.pvn" -> /\ Len(c) = 11 /\ IsDigits(c)
                       /\ (c[1] > 51 => W(c, <<9, 1, 4, 8, 3, 10, 2, 5, 7, 6, 1>>) % 11 = 3)
    [] m = "ee.ik" -> Len(c) = 11 /\ IsDigits(c) /\ EstonianCheck(c, 10) = D(c[11])
    [] m = "at.tin" -> Len(c) = 9 /\ IsDigits(c) /\ (10 - (Sum(LAMBDA i : IF i % 2 = 0 THEN DigitSum(2 * D(c[i])) ELSE D(c[i]), 8) % 10)) % 10 = D(c[9])
    [] m = "dk.cpr" -> /\ Len(c) = 10 /\ IsDigits(c)
                       /\ LET yy == NumOf(c, 5, 6)  k == D(c[7])
                              cent == IF k \in {5, 6, 7, 8} /\ yy >= 58 THEN 1800 ELSE IF k \in {0, 1, 2, 3} \/ (k \in {4, 9} /\ yy >= 37) THEN 1900 ELSE 2000
                          IN NRealDate(cent + yy, NumOf(c, 3, 4), NumOf(c, 1, 2))
    [] m = "za.idnr" -> /\ Len(c) = 13 /\ IsDigits(c) /\ LuhnSum(c) % 10 = 0 /\ c[11] \in {48, 49}
                        /\ (NRealDate(1900 + NumOf(c, 1, 2), NumOf(c, 3, 4), NumOf(c, 5, 6)) \/ NRealDate(2000 + NumOf(c, 1, 2), NumOf(c, 3, 4), NumOf(c, 5, 6)))
    [] m = "se.personnummer" -> /\ Len(c) \in {11, 13} /\ c[Len(c) - 4] \in {45, 43}
                               /\ LET dg == SubSeq(c, 1, Len(c) - 5) \o SubSeq(c, Len(c) - 3, Len(c))
                                      ten == SubSeq(dg, Len(dg) - 9, Len(dg))
                                  IN /\ IsDigits(dg) /\ LuhnSum(ten) % 10 = 0
                                     /\ IF Len(c) = 13 THEN NRealDate(NumOf(c, 1, 4), NumOf(c, 5, 6), NumOf(c, 7, 8))
                                        ELSE \E cent \in {1800, 1900, 2000} : NRealDate(cent + NumOf(c, 1, 2), NumOf(c, 3, 4), NumOf(c, 5, 6))
    [] m = "cz.bankaccount" -> /\ Len(c) = 22 /\ c[7] = 45 /\ c[18] = 47 /\ IsDigits(SubSeq(c, 1, 6)) /\ IsDigits(SubSeq(c, 8, 17)) /\ IsDigits(SubSeq(c, 19, 22))
                              /\ W(ZFill(SubSeq(c, 1, 6), 10), <<6, 3, 7, 9, 10, 5, 8, 4, 2, 1>>) % 11 = 0
                              /\ W(SubSeq(c, 8, 17), <<6, 3, 7, 9, 10, 5, 8, 4, 2, 1>>) % 11 = 0
    [] m = "pl.pesel" -> Len(c) = 11 /\ IsDigits(c) /\ (10 - (W(c, <<1, 3, 7, 9, 1, 3, 7, 9, 1, 3>>) % 10)) % 10 = D(c[11])
    [] m = "sg.uen" -> /\ Len(c) \in {9, 10}
                       /\ IF Len(c) = 9
                          THEN IsDigits(SubSeq(c, 1, 8)) /\ c[9] = <<88, 77, 75, 69, 67, 65, 87, 76, 74, 68, 66>>[(W(c, <<10, 4, 9, 3, 8, 2, 7, 1>>) % 11) + 1]
                          ELSE IF c[1] \in 48..57
                          THEN IsDigits(SubSeq(c, 1, 9)) /\ c[10] = <<90, 75, 67, 77, 68, 78, 69, 82, 71, 87, 72>>[(W(c, <<10, 8, 6, 4, 9, 7, 5, 3, 1>>) % 11) + 1]
                          ELSE /\ c[1] \in {82, 83, 84} /\ IsDigits(SubSeq(c, 2, 3)) /\ SubSeq(c, 4, 5) \in SgTypes /\ IsDigits(SubSeq(c, 6, 9))
                               /\ c[10] = SgOtherAlphabet[((Sum(LAMBDA i : (IndexIn(c[i], SgOtherAlphabet) - 1) * <<4, 3, 5, 3, 10, 2, 2, 5, 7>>[i], 9) + 6) % 11) + 1]
    [] m = "ro.onrc" -> LET sl == {i \in 1..Len(c) : c[i] = 47}
                        IN /\ Cardinality(sl) = 2 /\ Len(c) >= 6 /\ c[1] \in {74, 70, 67}
                           /\ LET p1 == CHOOSE i \in sl : \A j \in sl : i <= j
                                  p2 == CHOOSE i \in sl : \A j \in sl : j <= i
                              IN /\ p1 \in {3, 4} /\ IsDigits(SubSeq(c, 2, p1 - 1)) /\ NumOf(c, 2, p1 - 1) \in RoCounties
                                 /\ (p2 - p1 - 1) \in 1..5 /\ IsDigits(SubSeq(c, p1 + 1, p2 - 1))
                                 /\ Len(c) - p2 = 4 /\ IsDigits(SubSeq(c, p2 + 1, Len(c))) /\ NumOf(c, p2 + 1, Len(c)) >= 1990
    [] m = "id.nik" -> IdNikNec(c)
    [] m = "id.npwp" -> /\ IsDigits(c)
                        /\ CASE Len(c) = 15 -> LuhnSum(SubSeq(c, 1, 9)) % 10 = 0
                             [] Len(c) = 16 -> (IF c[1] = 48 THEN LuhnSum(SubSeq(c, 1, 10)) % 10 = 0 ELSE IdNikNec(c))
                             [] OTHER -> FALSE
    [] m = "cn.ric" -> /\ Len(c) = 18 /\ IsDigits(SubSeq(c, 1, 17))
                       /\ LET v == FoldLeft(LAMBDA acc, ch : (13 * acc + D(ch)) % 11, 0, SubSeq(c, 1, 17))  k == (1 + 9 * v) % 11
                          IN c[18] = (IF k = 10 THEN 88 ELSE 48 + k)
                       /\ NumOf(c, 7, 10) >= 1 /\ NRealDate(NumOf(c, 7, 10), NumOf(c, 11, 12), NumOf(c, 13, 14))
    [] m = "be.nn" -> Len(c) = 11 /\ IsDigits(c) /\ ~AllZero(c) /\ BeNnChecksum(c) /\ NumOf(c, 3, 4) <= 12
    [] m = "be.bis" -> Len(c) = 11 /\ IsDigits(c) /\ ~AllZero(c) /\ BeNnChecksum(c) /\ (NumOf(c, 3, 4) \in 20..32 \/ NumOf(c, 3, 4) \in 40..52)
    [] m = "us.ssn" -> /\ Len(c) = 9 /\ IsDigits(c) /\ NumOf(c, 1, 3) \notin {0, 666} /\ c[1] # 57 /\ NumOf(c, 4, 5) # 0 /\ NumOf(c, 6, 9) # 0
    [] m = "us.itin" -> Len(c) = 9 /\ IsDigits(c) /\ c[1] = 57 /\ NumOf(c, 4, 5) \in ((70..99) \ {89, 93})
    [] m \in {"us.atin", "us.ein"} -> Len(c) = 9 /\ IsDigits(c)
    [] m = "nz.bankaccount" -> Len(c) = 16 /\ IsDigits(c) /\ NzOk(c)
    [] m = "my.nric" -> Len(c) = 12 /\ IsDigits(c) /\ TwoCenturyDate(NumOf(c, 1, 2), NumOf(c, 3, 4), NumOf(c, 5, 6))
    [] m = "mac" -> Len(c) = 17 /\ \A i \in 1..17 : IF i % 3 = 0 THEN c[i] = 58 ELSE ((c[i] \in 48..57) \/ (c[i] \in 97..102))
    [] m = "imsi" -> IsDigits(c) /\ Len(c) \in {14, 15}
    [] m = "cfi" -> Len(c) = 6 /\ \A i \in 1..6 : c[i] \in 65..90
    [] m = "isil" -> Len(c) <= 15 /\ \A i \in 1..Len(c) : (c[i] \in 48..57) \/ (c[i] \in 65..90) \/ (c[i] \in 97..122) \/ c[i] \in {45, 58, 47}
    [] m = "at.postleitzahl" -> Len(c) = 4 /\ IsDigits(c)
    [] m = "eu.nace" -> Len(c) \in 1..4 /\ (IF Len(c) = 1 THEN IsAlphaCp(c[1]) ELSE IsDigits(c))
    [] m = "be.ssn" -> /\ Len(c) = 11 /\ IsDigits(c) /\ ~AllZero(c) /\ BeNnChecksum(c)
                       /\ (NumOf(c, 3, 4) <= 12 \/ NumOf(c, 3, 4) \in 20..32 \/ NumOf(c, 3, 4) \in 40..52)

(* formats whose acceptance depends on the system date: the year is an argument of the acceptance condition *)
KnownClock == {"ro.onrc", "sg.uen", "be.nn", "be.bis", "be.ssn"}
BeChecksumAt(c, y) == LET k == NumOf(c, 10, 11)
                      IN 97 - ModOf(SubSeq(c, 1, 9), 97) = k \/ (2000 + NumOf(c, 1, 2) <= y /\ 97 - ModOf(<<50>> \o SubSeq(c, 1, 9), 97) = k)
AcceptClock(m, c, y) ==
  CASE m = "ro.onrc" -> NecessaryN(m, c) /\ NumOf(c, Len(c) - 3, Len(c)) <= y
    [] m = "sg.uen" -> /\ NecessaryN(m, c)
                       /\ (Len(c) = 10 /\ c[1] \in 48..57 => NumOf(c, 1, 4) <= y)
                       /\ (Len(c) = 10 /\ c[1] = 84 => NumOf(c, 2, 3) <= y % 100)
    [] m \in {"be.nn", "be.bis", "be.ssn"} -> NecessaryN(m, c) /\ BeChecksumAt(c, y)
=============================================================================
