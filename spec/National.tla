------------------------------- MODULE National -------------------------------
(* National numbers whose published check digit algorithm is a weighted sum:     *)
(* an independent transcription, judged on the module's own compact form c       *)
(* (what compact() strips is C03's subject).  AcceptN(m, c) says whether c is a  *)
(* valid number of format m.  This is the growth path of the specification:      *)
(* every row turns a contract check of that module into an agreement check.      *)
EXTENDS Text, TLC

D(c) == c - 48
Sum(f(_), n) == FoldLeft(LAMBDA a, i : a + f(i), 0, [i \in 1..n |-> i])
W(c, w) == Sum(LAMBDA i : w[i] * D(c[i]), Len(w))            \* weighted sum over the first Len(w) digits
AllZero(c) == \A i \in 1..Len(c) : c[i] = 48
DigitSum(n) == (n \div 10) + (n % 10)
NumOf(c, a, b) == FoldLeft(LAMBDA acc, ch : 10 * acc + D(ch), 0, SubSeq(c, a, b))     \* needs b - a + 1 <= 9 digits
ModOf(c, m) == FoldLeft(LAMBDA acc, ch : (10 * acc + D(ch)) % m, 0, c)

Known == {"nl.bsn", "nl.onderwijsnummer", "pl.nip", "pl.regon", "pt.nif", "dk.cvr", "fi.alv", "no.orgnr", "es.dni", "ee.kmkr", "mt.vat",
          "lu.tva", "gr.vat", "hu.anum", "be.vat", "si.ddv", "at.uid", "br.cpf", "tr.tckimlik", "ch.uid", "it.iva", "se.orgnr", "fr.siren",
          "ca.sin", "il.idnr", "co.nit", "de.vat", "hr.oib", "ro.cui", "ru.inn", "us.rtn", "au.abn", "au.acn", "au.tfn", "jp.cn"}
(* formats with further rules (dates, ranges) that are not transcribed: the checksum is only a NECESSARY condition *)
Necessary == {"no.fodselsnummer", "fi.hetu", "ch.ssn", "lv.pvn", "pl.pesel"}

AcceptN(m, c) ==
  CASE m = "nl.bsn" -> Len(c) = 9 /\ IsDigits(c) /\ ~AllZero(c) /\ (W(c, <<9, 8, 7, 6, 5, 4, 3, 2>>) + 11 * 9 - D(c[9])) % 11 = 0
    [] m = "nl.onderwijsnummer" -> /\ Len(c) = 9 /\ IsDigits(c) /\ SubSeq(c, 1, 2) = <<49, 48>>
                                   /\ (W(c, <<9, 8, 7, 6, 5, 4, 3, 2>>) + 11 * 9 - D(c[9])) % 11 = 5
    [] m = "pl.nip" -> Len(c) = 10 /\ IsDigits(c) /\ W(c, <<6, 5, 7, 2, 3, 4, 5, 6, 7>>) % 11 = D(c[10])
    [] m = "pl.regon" -> /\ IsDigits(c) /\ Len(c) \in {9, 14}
                         /\ (W(c, <<8, 9, 2, 3, 4, 5, 6, 7>>) % 11) % 10 = D(c[9])
                         /\ (Len(c) = 14 => (W(c, <<2, 4, 8, 5, 0, 9, 7, 3, 6, 1, 2, 4, 8>>) % 11) % 10 = D(c[14]))
    [] m = "pt.nif" -> /\ Len(c) = 9 /\ IsDigits(c) /\ c[1] # 48
                       /\ LET r == (11 - (W(c, <<9, 8, 7, 6, 5, 4, 3, 2>>) % 11)) % 11 IN (IF r = 10 THEN 0 ELSE r) = D(c[9])
    [] m = "dk.cvr" -> Len(c) = 8 /\ IsDigits(c) /\ c[1] # 48 /\ W(c, <<2, 7, 6, 5, 4, 3, 2, 1>>) % 11 = 0
    [] m = "fi.alv" -> Len(c) = 8 /\ IsDigits(c) /\ W(c, <<7, 9, 10, 5, 8, 4, 2, 1>>) % 11 = 0
    [] m = "no.orgnr" -> Len(c) = 9 /\ IsDigits(c) /\ W(c, <<3, 2, 7, 6, 5, 4, 3, 2, 1>>) % 11 = 0
    [] m = "es.dni" -> /\ Len(c) = 9 /\ IsDigits(SubSeq(c, 1, 8))
                       /\ c[9] = <<84, 82, 87, 65, 71, 77, 89, 70, 80, 68, 88, 66, 78, 74, 90, 83, 81, 86, 72, 76, 67, 75, 69>>[ModOf(SubSeq(c, 1, 8), 23) + 1]
    [] m = "ee.kmkr" -> Len(c) = 9 /\ IsDigits(c) /\ W(c, <<3, 7, 1, 3, 7, 1, 3, 7, 1>>) % 10 = 0
    [] m = "mt.vat" -> Len(c) = 8 /\ IsDigits(c) /\ c[1] # 48 /\ W(c, <<3, 4, 6, 7, 8, 9, 10, 1>>) % 37 = 0
    [] m = "lu.tva" -> Len(c) = 8 /\ IsDigits(c) /\ NumOf(c, 1, 6) % 89 = NumOf(c, 7, 8)
    [] m = "gr.vat" -> Len(c) = 9 /\ IsDigits(c) /\ (W(c, <<256, 128, 64, 32, 16, 8, 4, 2>>) % 11) % 10 = D(c[9])
    [] m = "hu.anum" -> Len(c) = 8 /\ IsDigits(c) /\ W(c, <<9, 7, 3, 1, 9, 7, 3, 1>>) % 10 = 0
    [] m = "be.vat" -> Len(c) = 10 /\ IsDigits(c) /\ ~AllZero(c) /\ (ModOf(SubSeq(c, 1, 8), 97) + NumOf(c, 9, 10)) % 97 = 0
    [] m = "si.ddv" -> /\ Len(c) = 8 /\ IsDigits(c) /\ c[1] # 48
                       /\ LET r == 11 - (W(c, <<8, 7, 6, 5, 4, 3, 2>>) % 11) IN r # 11 /\ (IF r = 10 THEN 0 ELSE r) = D(c[8])
    [] m = "at.uid" -> /\ Len(c) = 9 /\ c[1] = 85 /\ IsDigits(SubSeq(c, 2, 9))
                       /\ LET s == Sum(LAMBDA i : IF i % 2 = 0 THEN DigitSum(2 * D(c[i + 1])) ELSE D(c[i + 1]), 7)
                          IN (10 - ((s + 4) % 10)) % 10 = D(c[9])
    [] m = "br.cpf" -> /\ Len(c) = 11 /\ IsDigits(c) /\ ~AllZero(c)
                       /\ LET r1 == (W(c, <<10, 9, 8, 7, 6, 5, 4, 3, 2>>) * 10) % 11  r2 == (W(c, <<11, 10, 9, 8, 7, 6, 5, 4, 3, 2>>) * 10) % 11
                          IN (r1 % 10) = D(c[10]) /\ (r2 % 10) = D(c[11])
    [] m = "tr.tckimlik" -> /\ Len(c) = 11 /\ IsDigits(c) /\ c[1] # 48
                            /\ LET odd == D(c[1]) + D(c[3]) + D(c[5]) + D(c[7]) + D(c[9])  even == D(c[2]) + D(c[4]) + D(c[6]) + D(c[8])
                               IN (7 * odd + 9 * even) % 10 = D(c[10]) /\ (odd + even + D(c[10])) % 10 = D(c[11])
    [] m = "ch.uid" -> /\ Len(c) = 12 /\ SubSeq(c, 1, 3) = <<67, 72, 69>> /\ IsDigits(SubSeq(c, 4, 12))
                       /\ LET d == SubSeq(c, 4, 12)  r == (11 - (W(d, <<5, 4, 3, 2, 7, 6, 5, 4>>) % 11)) % 11 IN r = D(d[9])
    [] m = "it.iva" -> /\ Len(c) = 11 /\ IsDigits(c) /\ ~AllZero(SubSeq(c, 1, 7))
                       /\ LET off == NumOf(c, 8, 10) IN ((off >= 1 /\ off <= 100) \/ off \in {120, 121, 888, 999})
                       /\ Sum(LAMBDA i : IF i % 2 = 0 THEN DigitSum(2 * D(c[i])) ELSE D(c[i]), 11) % 10 = 0
    [] m = "se.orgnr" -> Len(c) = 10 /\ IsDigits(c) /\ Sum(LAMBDA i : IF i % 2 = 1 THEN DigitSum(2 * D(c[i])) ELSE D(c[i]), 10) % 10 = 0
    [] m = "fr.siren" -> Len(c) = 9 /\ IsDigits(c) /\ Sum(LAMBDA i : IF i % 2 = 0 THEN DigitSum(2 * D(c[i])) ELSE D(c[i]), 9) % 10 = 0
    [] m = "ca.sin" -> Len(c) = 9 /\ IsDigits(c) /\ c[1] \notin {48, 56} /\ Sum(LAMBDA i : IF i % 2 = 0 THEN DigitSum(2 * D(c[i])) ELSE D(c[i]), 9) % 10 = 0
    [] m = "il.idnr" -> Len(c) = 9 /\ IsDigits(c) /\ ~AllZero(c) /\ Sum(LAMBDA i : IF i % 2 = 0 THEN DigitSum(2 * D(c[i])) ELSE D(c[i]), 9) % 10 = 0
    [] m = "de.vat" -> Len(c) = 9 /\ IsDigits(c) /\ c[1] # 48 /\ FoldLeft(LAMBDA q, ch : ((((IF q = 0 THEN 10 ELSE q) * 2) % 11) + D(ch)) % 10, 5, c) = 1
    [] m = "hr.oib" -> Len(c) = 11 /\ IsDigits(c) /\ FoldLeft(LAMBDA q, ch : ((((IF q = 0 THEN 10 ELSE q) * 2) % 11) + D(ch)) % 10, 5, c) = 1
    [] m = "ro.cui" -> /\ Len(c) >= 2 /\ Len(c) <= 10 /\ IsDigits(c) /\ c[1] # 48
                       /\ LET z == ZFill(c, 10) IN ((W(z, <<7, 5, 3, 2, 1, 7, 5, 3, 2>>) * 10) % 11) % 10 = D(z[10])
    [] m = "ru.inn" -> /\ IsDigits(c) /\ Len(c) \in {10, 12}
                       /\ IF Len(c) = 10 THEN (W(c, <<2, 4, 10, 3, 5, 9, 4, 6, 8>>) % 11) % 10 = D(c[10])
                          ELSE /\ (W(c, <<7, 2, 4, 10, 3, 5, 9, 4, 6, 8>>) % 11) % 10 = D(c[11])
                               /\ (W(c, <<3, 7, 2, 4, 10, 3, 5, 9, 4, 6, 8>>) % 11) % 10 = D(c[12])
    [] m = "us.rtn" -> Len(c) = 9 /\ IsDigits(c) /\ W(c, <<3, 7, 1, 3, 7, 1, 3, 7, 1>>) % 10 = 0
    [] m = "au.abn" -> Len(c) = 11 /\ IsDigits(c) /\ (W(c, <<10, 1, 3, 5, 7, 9, 11, 13, 15, 17, 19>>) + 89 * 10 - 10) % 89 = 0
    [] m = "au.acn" -> Len(c) = 9 /\ IsDigits(c) /\ (10 - (W(c, <<8, 7, 6, 5, 4, 3, 2, 1>>) % 10)) % 10 = D(c[9])
    [] m = "au.tfn" -> /\ IsDigits(c) /\ Len(c) \in {8, 9}
                       /\ IF Len(c) = 9 THEN W(c, <<1, 4, 3, 7, 5, 8, 6, 9, 10>>) % 11 = 0 ELSE W(c, <<10, 7, 8, 4, 6, 3, 5, 1>>) % 11 = 0
    [] m = "jp.cn" -> /\ Len(c) = 13 /\ IsDigits(c)
                      /\ 9 - (Sum(LAMBDA i : (IF i % 2 = 0 THEN 1 ELSE 2) * D(c[i + 1]), 12) % 9) = D(c[1])
    [] m = "co.nit" -> /\ Len(c) >= 8 /\ Len(c) <= 16 /\ IsDigits(c)
                       /\ LET ws == <<3, 7, 13, 17, 19, 23, 29, 37, 41, 43, 47, 53, 59, 67, 71>>  n == Len(c) - 1
                              s == Sum(LAMBDA i : ws[i] * D(c[n + 1 - i]), n) % 11
                          IN (IF s < 2 THEN s ELSE 11 - s) = D(c[n + 1])

(* checksum parts of formats with further rules *)
NecessaryN(m, c) ==
  CASE m = "no.fodselsnummer" -> /\ Len(c) = 11 /\ IsDigits(c)
                                 /\ (11 - (W(c, <<3, 7, 6, 1, 8, 9, 4, 5, 2>>) % 11)) % 11 = D(c[10])
                                 /\ (11 - (W(c, <<5, 4, 3, 2, 7, 6, 5, 4, 3, 2>>) % 11)) % 11 = D(c[11])
    [] m = "fi.hetu" -> /\ Len(c) = 11 /\ IsDigits(SubSeq(c, 1, 6)) /\ IsDigits(SubSeq(c, 8, 10))
                        /\ c[11] = <<48,49,50,51,52,53,54,55,56,57,65,66,67,68,69,70,72,74,75,76,77,78,80,82,83,84,85,86,87,88,89>>[ModOf(SubSeq(c, 1, 6) \o SubSeq(c, 8, 10), 31) + 1]
    [] m = "ch.ssn" -> /\ Len(c) = 13 /\ IsDigits(c) /\ SubSeq(c, 1, 3) = <<55, 53, 54>>
                       /\ Sum(LAMBDA i : (IF i % 2 = 1 THEN 1 ELSE 3) * D(c[i]), 13) % 10 = 0
    [] m = "lv.pvn" -> /\ Len(c) = 11 /\ IsDigits(c)
                       /\ (c[1] > 51 => W(c, <<9, 1, 4, 8, 3, 10, 2, 5, 7, 6, 1>>) % 11 = 3)
    [] m = "pl.pesel" -> Len(c) = 11 /\ IsDigits(c) /\ (10 - (W(c, <<1, 3, 7, 9, 1, 3, 7, 9, 1, 3>>) % 10)) % 10 = D(c[11])
=============================================================================
