SPECIFICATION Spec
VIEW view
INVARIANT TypeOK
INVARIANT SubstDetected
INVARIANT SwapDetected
INVARIANT LuhnSwapOthersDetected
INVARIANT LuhnSwapEndsMissed
INVARIANT GenUniqueL2R
INVARIANT GenExists2
CHECK_DEADLOCK FALSE
