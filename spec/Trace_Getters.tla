---------------------------- MODULE Trace_Getters ----------------------------
(* C12: derived attributes are total and consistent on valid numbers.          *)
(* One session per (module, valid number): events carry the canonical number v, *)
(* the presentation used, the getter, and its recorded outcome                  *)
(*   r = [k, t (type name), date (<<y,m,d>> or <<>>), text (code points for str *)
(*        results), parts (sequence of code point strings for tuples), mro].    *)
EXTENDS BirthDates, Json, IOUtils
Trace == ndJsonDeserialize(IOEnv.TRACE_FILE)
VARIABLES l, nrej, tid0, seen      \* seen: getter -> canonical result text of the first presentation; plus year/month

IsVE(r) == r.k = "exc" /\ \E i \in 1..Len(r.mro) : r.mro[i] = "stdnum.exceptions.ValidationError"
Ret(r) == r.k = "ret"
NoneDocumented == {"be.nn", "be.bis", "be.ssn"}    \* unknown birth dates / gender are documented to give None
Seen(e) == IF e.tid = tid0 THEN seen ELSE <<>>
Get(f, k, d) == IF k \in DOMAIN f THEN f[k] ELSE d

(* T1: a value of the documented kind, or a ValidationError -- never another exception *)
KindOK(e) ==
  CASE e.g = "get_birth_date" -> e.r.t = "date" \/ (e.r.t = "NoneType" /\ e.m \in NoneDocumented)
    [] e.g = "get_gender" -> (e.r.t = "str" /\ e.r.text \in {<<77>>, <<70>>}) \/ (e.r.t = "NoneType" /\ e.m \in NoneDocumented)
    [] e.g \in {"get_birth_year", "get_birth_month"} -> e.r.t = "int" \/ (e.r.t = "NoneType" /\ e.m \in NoneDocumented)
    [] e.g = "split" -> e.r.t \in {"tuple", "list"}
    [] e.g = "info" -> e.r.t \in {"dict", "list", "tuple"}
    [] e.g \in {"tin_type", "guess_type"} -> e.r.t \in {"str", "list"}      \* the sub-type(s) of a VALID number: never None
    [] OTHER -> TRUE
T1(e) == (Ret(e.r) /\ KindOK(e)) \/ IsVE(e.r)
(* T2: a returned birth date is a real date and agrees with the digits of the number *)
T2(e) == (e.g = "get_birth_date" /\ Ret(e.r) /\ e.r.t = "date")
            => (/\ RealDate(e.r.date[1], e.r.date[2], e.r.date[3])
                /\ (e.opt \/ (/\ (HasLayout(e.m) => Agrees(e.m, e.v, e.r.date))      \* e.opt: called with a keyword option (another
                               /\ (e.m = "it.codicefiscale" => CfAgrees(e.v, e.r.date))  \* century window ...): totality and a real date only
                               /\ (e.m = "se.personnummer" => SeAgrees(e.v, e.r.date)))))
(* T3: ... and with the separately returned year and month *)
T3(e) == (~e.opt /\ e.g \in {"get_birth_year", "get_birth_month"} /\ Ret(e.r) /\ e.r.t = "int" /\ "get_birth_date" \in DOMAIN Seen(e)
          /\ Seen(e)["get_birth_date"].t = "date")
            => e.r.int = Seen(e)["get_birth_date"].date[IF e.g = "get_birth_year" THEN 1 ELSE 2]
(* T5: the parts of split() concatenate to the canonical number (ISMN: in its 13 digit form) *)
Concat(parts) == FoldLeft(LAMBDA a, p : a \o p, <<>>, parts)
SplitCanon(m, v) == IF m = "ismn" /\ Len(v) = 10 THEN <<57, 55, 57, 48>> \o SubSeq(v, 2, 10)
                    ELSE IF m = "isbn" /\ Len(v) = 10 THEN <<57, 55, 56>> \o v
                    ELSE v
T5(e) == (~e.opt /\ e.g = "split" /\ Ret(e.r) /\ e.m \notin {"isan", "es.cif"})
            => Concat(e.r.parts) \in {SplitCanon(e.m, e.v), e.v}
(* T6: getters of any presentation agree with getters of the canonical number (first event of the session) *)
T6(e) == (~e.opt /\ e.g \in DOMAIN Seen(e)) => (e.r.k = Seen(e)[e.g].k /\ e.r.canon = Seen(e)[e.g].canon)
ClauseNames == <<"T1", "T2", "T3", "T5", "T6">>
Clauses(e) == [T1 |-> T1(e), T2 |-> T2(e), T3 |-> T3(e), T5 |-> T5(e), T6 |-> T6(e)]
Failing(e) == LET c == Clauses(e) IN SelectSeq(ClauseNames, LAMBDA n : ~c[n])
Init == l = 1 /\ nrej = 0 /\ tid0 = 0 /\ seen = <<>>
Step == /\ l <= Len(Trace)
        /\ LET e == Trace[l]  bad == Failing(e)
           IN /\ IF bad = <<>> THEN nrej' = nrej ELSE nrej' = nrej + 1 /\ PrintT(<<"REJ", e.tid, l, bad>>)
              /\ tid0' = e.tid
              /\ seen' = IF e.opt \/ e.g \in DOMAIN Seen(e) THEN Seen(e) ELSE (e.g :> e.r) @@ Seen(e)
        /\ l' = l + 1
Spec == Init /\ [][Step]_<<l, nrej, tid0, seen>>
Accepted == /\ TLCGet("stats").diameter - 1 = Len(Trace)
            /\ PrintT(<<"DONE", Len(Trace), TLCGet("stats").diameter - 1>>)
=============================================================================
