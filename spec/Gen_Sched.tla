------------------------------ MODULE Gen_Sched ------------------------------
(* All interleavings of the hook events of two threads that make the same first  *)
(* use of one cache key (each thread passes at most PerThread hook points).      *)
EXTENDS Naturals, Sequences, TLC
CONSTANTS PerThread
VARIABLE s
Init == s = <<>>
N(t) == Len(SelectSeq(s, LAMBDA x : x = t))
Next == \E t \in {"t1", "t2"} : N(t) < PerThread /\ s' = Append(s, t)
Spec == Init /\ [][Next]_s
Emit == (N("t1") < PerThread \/ N("t2") < PerThread) \/ PrintT(<<"SCHED", s>>)
=============================================================================
