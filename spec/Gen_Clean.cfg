SPECIFICATION Spec
INVARIANT Emit
CHECK_DEADLOCK FALSE
CONSTANTS
  MaxLen = 4
  Classes = {"digit", "letter", "lk_digit", "lk_dash", "lk_space", "lk_dot", "sep", "other"}
