--------------------------- MODULE ChecksumGenR2L ---------------------------
(* Right-to-left schemes (Luhn, Verhoeff) read the check character FIRST.      *)
(* One copy of the automaton per candidate check character runs in lock step   *)
(* over the same payload (read right to left); at every point exactly one      *)
(* copy is accepting: appending the generated character to ANY payload gives   *)
(* a valid string and no other character does.                                 *)
EXTENDS Naturals, Sequences, FiniteSets, TLC

CONSTANT Aut
A == 0..(Aut.na - 1)
D(q, c) == Aut.delta[q + 1][c + 1]
AccSet == {Aut.acc[i] : i \in 1..Len(Aut.acc)}

VARIABLES vec, h
view == vec
Init == vec = [c \in A |-> D(Aut.q0, c)] /\ h = <<>>
Next == \E d \in A : vec' = [c \in A |-> D(vec[c], d)] /\ h' = Append(h, d)
Spec == Init /\ [][Next]_<<vec, h>>

GenUniqueR2L == Cardinality({c \in A : vec[c] \in AccSet}) = 1
=============================================================================
