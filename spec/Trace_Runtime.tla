---------------------------- MODULE Trace_Runtime ----------------------------
(* Trace validation of the cache steps of Runtime.tla against hook events        *)
(* recorded in a real process (free-running thread stress and replayed TLC       *)
(* schedules).  Events of one process are ordered by the global sequence number  *)
(* written under the hook lock.  The membership test and the log are not atomic, *)
(* so a "miss" is admissible iff no store for that key was logged before the     *)
(* thread's own "enter" (the spec's internal check step is unlogged).            *)
EXTENDS Naturals, Sequences, FiniteSets, TLC, Json, IOUtils

Trace == ndJsonDeserialize(IOEnv.TRACE_FILE)
VARIABLES l, nrej, run, firstStore, oids, lastEnter, enterKey, missed, base

K(e) == <<e.cache, e.key>>
Get(f, k, d) == IF k \in DOMAIN f THEN f[k] ELSE d
Fresh(e) == e.run # run
FS(e) == IF Fresh(e) THEN <<>> ELSE firstStore
OI(e) == IF Fresh(e) THEN <<>> ELSE oids
LE(e) == IF Fresh(e) THEN <<>> ELSE lastEnter
EK(e) == IF Fresh(e) THEN <<>> ELSE enterKey
MI(e) == IF Fresh(e) THEN <<>> ELSE missed
BA(e) == IF Fresh(e) THEN <<>> ELSE base

(* A1: a miss is admissible only if no store of that key was logged before this thread entered *)
A1(e) == e.ev = "miss" => (Get(LE(e), e.th, 0) > 0 /\ (Get(FS(e), K(e), 0) = 0 \/ Get(FS(e), K(e), 0) > Get(LE(e), e.th, 0)))
(* A2: only a thread that missed stores, under the key it missed, and what it stores is complete *)
A2(e) == e.ev = "store" => (Get(MI(e), e.th, <<>>) = K(e) /\ e.full)
(* A3: what is returned belongs to the key the call entered with and is complete, and some thread *)
(* had begun to fill that key (the dictionary store itself is lock-free: it happens somewhere      *)
(* between the logged miss and the logged store, so object identities are not compared)            *)
A3(e) == e.ev = "ret" => (/\ Get(EK(e), e.th, <<>>) = K(e)
                          /\ Get(OI(e), K(e), {}) # {}
                          /\ e.full)
(* A4: every event belongs to a call that entered (no hook is missing) *)
A4(e) == e.ev # "enter" => Get(LE(e), e.th, 0) > 0
(* A5: the projected state of the real cache (its key set, read at the hook) agrees with the model: every key whose store *)
(* was logged is present (CacheMonotone), and nothing is present that was neither there when the cache was first seen in  *)
(* this process nor being filled by a thread that logged a miss                                                             *)
KeySet(e) == {e.keys[i] : i \in 1..Len(e.keys)}
Stored(e) == {k \in DOMAIN FS(e) : k[1] = e.cache}
InFlight(e) == {k \in DOMAIN OI(e) : k[1] = e.cache}
Base0(e) == Get(BA(e), e.cache, KeySet(e))
A5(e) == "?unreadable" \in KeySet(e) \/
         /\ \A k \in Stored(e) : k[2] \in KeySet(e)
         /\ \A x \in KeySet(e) : x \in Base0(e) \/ <<e.cache, x>> \in InFlight(e)
ClauseNames == <<"A1", "A2", "A3", "A4", "A5">>
Clauses(e) == [A1 |-> A1(e), A2 |-> A2(e), A3 |-> A3(e), A4 |-> A4(e), A5 |-> A5(e)]
Failing(e) == LET c == Clauses(e) IN SelectSeq(ClauseNames, LAMBDA n : ~c[n])

Init == l = 1 /\ nrej = 0 /\ run = 0 /\ firstStore = <<>> /\ oids = <<>> /\ lastEnter = <<>> /\ enterKey = <<>> /\ missed = <<>> /\ base = <<>>
Step ==
  /\ l <= Len(Trace)
  /\ LET e == Trace[l]  bad == Failing(e)
     IN /\ IF bad = <<>> THEN nrej' = nrej
           ELSE nrej' = nrej + 1 /\ PrintT(<<"REJ", e.tid, l, bad>>)
        /\ run' = e.run
        /\ firstStore' = IF e.ev = "store" /\ Get(FS(e), K(e), 0) = 0 THEN (K(e) :> e.seq) @@ FS(e) ELSE FS(e)
        /\ oids' = IF e.ev = "miss" THEN (K(e) :> (Get(OI(e), K(e), {}) \cup {e.th})) @@ OI(e) ELSE OI(e)
        /\ lastEnter' = IF e.ev = "enter" THEN (e.th :> e.seq) @@ LE(e) ELSE LE(e)
        /\ enterKey' = IF e.ev = "enter" THEN (e.th :> K(e)) @@ EK(e) ELSE EK(e)
        /\ base' = IF e.cache \in DOMAIN BA(e) THEN BA(e) ELSE (e.cache :> KeySet(e)) @@ BA(e)
        /\ missed' = IF e.ev = "miss" THEN (e.th :> K(e)) @@ MI(e)
                     ELSE IF e.ev = "enter" THEN (e.th :> <<>>) @@ MI(e) ELSE MI(e)
  /\ l' = l + 1
Spec == Init /\ [][Step]_<<l, nrej, run, firstStore, oids, lastEnter, enterKey, missed, base>>
Accepted == /\ TLCGet("stats").diameter - 1 = Len(Trace)
            /\ PrintT(<<"DONE", Len(Trace), TLCGet("stats").diameter - 1>>)
=============================================================================
