----------------------------- MODULE Trace_Api -----------------------------
(* Trace validation of recorded sessions against Api.tla (+ ApiFormat.tla).    *)
(* The trace file holds thousands of independent micro-traces (field tid).     *)
(* Verdicts are total: a failing event is reported with the names of the       *)
(* clauses it fails and the validation goes on.                                *)
EXTENDS Api, ApiFormat, Json, IOUtils

Trace == ndJsonDeserialize(IOEnv.TRACE_FILE)

VARIABLES l, sess, nrej

ClauseNames == <<"V1", "V2", "V3", "F1", "F2", "D1", "S1", "S1x", "G0", "G1", "G2", "M1", "M2", "M3">>

Clauses(e, s) ==
  [V1 |-> V1(e), V2 |-> V2(e), V3 |-> V3(e, s), F1 |-> F1(e, s), F2 |-> F2(e),
   D1 |-> D1(e, s), S1 |-> S1(e), S1x |-> S1x(e), G0 |-> G0(e, s), G1 |-> G1(e, s), G2 |-> G2(e, s),
   M1 |-> M1(e, s), M2 |-> M2(e, s), M3 |-> M3(e, s)]

Failing(e, s) == LET c == Clauses(e, s) IN SelectSeq(ClauseNames, LAMBDA n : ~c[n])

Init == l = 1 /\ sess = Fresh(0) /\ nrej = 0

Step ==
  /\ l <= Len(Trace)
  /\ LET e   == Trace[l]
         s   == IF e.tid = sess.tid THEN sess ELSE Fresh(e.tid)
         bad == Failing(e, s)
     IN /\ IF bad = <<>> THEN nrej' = nrej
           ELSE nrej' = nrej + 1 /\ PrintT(<<"REJ", e.tid, l, bad>>)
        /\ sess' = Apply(e, s)
  /\ l' = l + 1

Spec == Init /\ [][Step]_<<l, sess, nrej>>

Accepted == /\ TLCGet("stats").diameter - 1 = Len(Trace)
            /\ PrintT(<<"DONE", Len(Trace), TLCGet("stats").diameter - 1>>)
=============================================================================
