SPECIFICATION Spec
CONSTANTS
  Threads = {"t1", "t2", "t3"}
  Names = {"be/banks", "cz/banks", "isbn"}
  Codes = {"nl", "el", "xi", "gb", "zz"}
  MaxCalls = 2
  StoreFirst = FALSE
  BaseKey = FALSE
  AliasProps = FALSE
  CacheBeforeMember = FALSE
  NoImportFallback = FALSE
  Faults = TRUE
INVARIANT PureResults
INVARIANT KeyInjective
PROPERTY CacheMonotone
CHECK_DEADLOCK FALSE
