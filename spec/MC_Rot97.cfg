SPECIFICATION Spec
CONSTANT MaxN = 30
INVARIANT Detected
CHECK_DEADLOCK FALSE
