SPECIFICATION Spec
CONSTANT PadDecimals = FALSE
INVARIANT RT1
CHECK_DEADLOCK FALSE
