SPECIFICATION Spec
CONSTANT Variant = "plain"
INVARIANT V2
INVARIANT V3
CHECK_DEADLOCK FALSE
