SPECIFICATION Spec
INVARIANT Emit
CHECK_DEADLOCK FALSE
CONSTANTS
  MaxLen = 8
  Classes = {"imsi_info", "mac_info", "isbn_format", "isbn_split", "iban_validate", "euvat_validate", "euvat_guess",
             "vatin_validate", "be_iban_info", "cfi_info", "gs1_info", "plz_info", "nace_info", "cc_module",
             "nz_bank_info", "cz_bank_info", "numdb_info", "at_tin_info", "us_tin_guess", "validate_any", "format_any", "my_nric", "cn_ric"}
