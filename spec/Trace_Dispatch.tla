--------------------------- MODULE Trace_Dispatch ---------------------------
EXTENDS Dispatch, Json, IOUtils
Trace == ndJsonDeserialize(IOEnv.TRACE_FILE)
VARIABLES l, nrej
ClauseNames == <<"M_EV", "EV1", "EV2", "SUP", "IFF", "UNI1", "UNI2", "UNI3", "IB1", "IB2", "GC", "CCM">>
Clauses(e) == [M_EV |-> EV_M(e), EV1 |-> EV_1(e), EV2 |-> EV_2(e), SUP |-> SUP(e), IFF |-> IFF(e), UNI1 |-> UNI_1(e), UNI2 |-> UNI_2(e),
               UNI3 |-> UNI_3(e), IB1 |-> IB_1(e), IB2 |-> IB_2(e), GC |-> GC(e), CCM |-> CCM(e)]
Failing(e) == LET c == Clauses(e) IN SelectSeq(ClauseNames, LAMBDA n : ~c[n])
Init == l = 1 /\ nrej = 0
Step == /\ l <= Len(Trace)
        /\ LET e == Trace[l]  bad == Failing(e)
           IN IF bad = <<>> THEN nrej' = nrej ELSE nrej' = nrej + 1 /\ PrintT(<<"REJ", e.tid, l, bad>>)
        /\ l' = l + 1
Spec == Init /\ [][Step]_<<l, nrej>>
Accepted == /\ TLCGet("stats").diameter - 1 = Len(Trace)
            /\ PrintT(<<"DONE", Len(Trace), TLCGet("stats").diameter - 1>>)
=============================================================================
