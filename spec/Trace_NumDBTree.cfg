SPECIFICATION Spec
POSTCONDITION Accepted
CHECK_DEADLOCK FALSE
