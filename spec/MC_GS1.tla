------------------------------- MODULE MC_GS1 -------------------------------
(* Design-level model of the GS1-128 round trip on an abstract identifier table: *)
(* two fixed and four variable identifiers (one int, one decimal), value alphabet *)
(* of two symbols, all mappings of <= 3 identifiers, with and without separator.  *)
(* RT1 holds when numbers are canonical -- EXCEPT for variable-length decimals in *)
(* padded (no separator) mode: left-padding with zeros destroys the leading       *)
(* decimal-position digit.  PadDecimals = TRUE is the implementation's design and *)
(* must be refuted; FALSE restricts padded mode to mappings without a non-final   *)
(* variable decimal and must hold.                                                *)
EXTENDS Naturals, Sequences, SequencesExt, FiniteSets, TLC
CONSTANT PadDecimals
SEP == 30  PAD == 20
AIs == [ f1 |-> [id |-> 41, var |-> FALSE, max |-> 2, kind |-> "str"],
         f2 |-> [id |-> 42, var |-> FALSE, max |-> 1, kind |-> "str"],
         v1 |-> [id |-> 43, var |-> TRUE,  max |-> 2, kind |-> "str"],
         v2 |-> [id |-> 44, var |-> TRUE,  max |-> 3, kind |-> "dec"],
         v3 |-> [id |-> 45, var |-> TRUE,  max |-> 2, kind |-> "int"],
         v4 |-> [id |-> 46, var |-> TRUE,  max |-> 3, kind |-> "str"] ]
Names == <<"f1", "f2", "v1", "v2", "v3", "v4">>
ById(c) == CHOOSE n \in DOMAIN AIs : AIs[n].id = c
StrVals(k) == UNION {[1..j -> {1, 2}] : j \in 1..k}
IntVals(k) == UNION {[1..j -> {10, 11}] : j \in 1..k}
(* decimals: <<scale digit (10 = 0 places, 11 = 1 place)>> \o digits *)
DecVals(k) == {<<sc>> \o d : sc \in {10, 11}, d \in IntVals(k - 1)}
Vals(n) == CASE AIs[n].kind = "int" -> IntVals(AIs[n].max)
             [] AIs[n].kind = "dec" -> DecVals(AIs[n].max)
             [] OTHER -> IF AIs[n].var THEN StrVals(AIs[n].max) ELSE [1..AIs[n].max -> {1, 2}]
Canon(n, v) == CASE AIs[n].kind = "int" -> (Len(v) = 1 \/ v[1] # 10)
                 [] AIs[n].kind = "dec" -> (Len(v) = 2 \/ v[2] # 10)
                 [] OTHER -> TRUE
PadTo(n, v) == IF AIs[n].kind \in {"int", "dec"} THEN [i \in 1..(AIs[n].max - Len(v)) |-> 10] \o v
               ELSE v \o [i \in 1..(AIs[n].max - Len(v)) |-> PAD]
Encode(m, useSep) ==
  LET present == SelectSeq(Names, LAMBDA n : n \in DOMAIN m)
      fixed == SelectSeq(present, LAMBDA n : ~AIs[n].var)
      vars == SelectSeq(present, LAMBDA n : AIs[n].var)
      fx == FoldLeft(LAMBDA acc, n : acc \o <<AIs[n].id>> \o m[n], <<>>, fixed)
      vx == FoldLeft(LAMBDA acc, i : acc \o <<AIs[vars[i]].id>> \o
                (IF i < Len(vars) THEN (IF useSep THEN m[vars[i]] \o <<SEP>> ELSE PadTo(vars[i], m[vars[i]])) ELSE m[vars[i]]),
              <<>>, [i \in 1..Len(vars) |-> i])
  IN fx \o vx
StripPad(v) == LET nz == {i \in 1..Len(v) : v[i] # PAD}
               IN IF nz = {} THEN <<>> ELSE SubSeq(v, CHOOSE i \in nz : \A j \in nz : i <= j, CHOOSE i \in nz : \A j \in nz : i >= j)
RECURSIVE StripZeros(_)
StripZeros(v) == IF Len(v) > 1 /\ v[1] = 10 THEN StripZeros(Tail(v)) ELSE v
DecodeDec(v) == <<v[1]>> \o StripZeros(Tail(v))        \* first character is the decimal position
IndexOf(s, c) == IF \E i \in 1..Len(s) : s[i] = c THEN CHOOSE i \in 1..Len(s) : s[i] = c /\ \A j \in 1..(i - 1) : s[j] # c ELSE 0
RECURSIVE Decode(_, _, _)
Decode(s, useSep, acc) ==
  IF s = <<>> THEN acc
  ELSE IF useSep /\ s[1] = SEP THEN Decode(Tail(s), useSep, acc)
  ELSE IF s[1] < 40 THEN [err |-> "noai"]
  ELSE LET n == ById(s[1])
           rest == Tail(s)
           byLen == SubSeq(rest, 1, IF Len(rest) < AIs[n].max THEN Len(rest) ELSE AIs[n].max)
           idx == IndexOf(rest, SEP)
           val == IF useSep /\ AIs[n].var /\ idx > 1 THEN SubSeq(rest, 1, idx - 1) ELSE byLen
           dec == CASE AIs[n].kind = "int" -> StripZeros(val) [] AIs[n].kind = "dec" -> DecodeDec(val) [] OTHER -> StripPad(val)
       IN Decode(SubSeq(rest, Len(val) + 1, Len(rest)), useSep, [k \in DOMAIN acc \cup {n} |-> IF k = n THEN dec ELSE acc[k]])
VARIABLES m, sep
LastVar(mm) == LET vs == SelectSeq(Names, LAMBDA n : n \in DOMAIN mm /\ AIs[n].var) IN IF vs = <<>> THEN "none" ELSE vs[Len(vs)]
Admissible(mm, s) == PadDecimals \/ s \/ ("v2" \notin DOMAIN mm) \/ LastVar(mm) = "v2"
Init == m = <<>> /\ sep \in BOOLEAN
Add == Cardinality(DOMAIN m) < 3 /\ \E n \in DOMAIN AIs \ DOMAIN m : \E v \in Vals(n) :
         Canon(n, v) /\ m' = [k \in DOMAIN m \cup {n} |-> IF k = n THEN v ELSE m[k]] /\ UNCHANGED sep
Spec == Init /\ [][Add]_<<m, sep>>
RT1 == Admissible(m, sep) => Decode(Encode(m, sep), sep, <<>>) = m
=============================================================================
