----------------------------- MODULE Trace_Typo -----------------------------
(* C17: a valid number with one same-class character replaced, or two adjacent *)
(* different digits swapped, is rejected.  Each event carries the base (the    *)
(* canonical valid number), the edited string and what the implementation said *)
(* about both; TLC checks that the edit is one the property talks about        *)
(* (clause M1, machinery) and that the edited string was rejected (E1).        *)
EXTENDS Text, TLC, Json, IOUtils

Trace == ndJsonDeserialize(IOEnv.TRACE_FILE)
VARIABLES l, nrej

SameClass(a, b) == (IsDigitCp(a) /\ IsDigitCp(b)) \/ (IsUpperCp(a) /\ IsUpperCp(b)) \/ (IsLowerCp(a) /\ IsLowerCp(b))
IsSingleSubst(x, y) ==
  /\ Len(x) = Len(y)
  /\ \E i \in 1..Len(x) : /\ x[i] # y[i] /\ SameClass(x[i], y[i])
                          /\ \A j \in 1..Len(x) : j # i => x[j] = y[j]
IsAdjDigitSwap(x, y) ==
  /\ Len(x) = Len(y)
  /\ \E i \in 1..(Len(x) - 1) :
        /\ x[i] # x[i + 1] /\ IsDigitCp(x[i]) /\ IsDigitCp(x[i + 1])
        /\ y[i] = x[i + 1] /\ y[i + 1] = x[i]
        /\ \A j \in 1..Len(x) : (j # i /\ j # i + 1) => x[j] = y[j]

M1(e) == IF e.kind = "subst" THEN IsSingleSubst(e.base, e.ed) ELSE IsAdjDigitSwap(e.base, e.ed)
E1(e) == e.bacc => ~e.acc
ClauseNames == <<"M1", "E1">>
Clauses(e) == [M1 |-> M1(e), E1 |-> E1(e)]
Failing(e) == LET c == Clauses(e) IN SelectSeq(ClauseNames, LAMBDA n : ~c[n])

Init == l = 1 /\ nrej = 0
Step == /\ l <= Len(Trace)
        /\ LET e == Trace[l]  bad == Failing(e)
           IN IF bad = <<>> THEN nrej' = nrej
              ELSE nrej' = nrej + 1 /\ PrintT(<<"REJ", e.tid, l, bad>>)
        /\ l' = l + 1
Spec == Init /\ [][Step]_<<l, nrej>>
Accepted == /\ TLCGet("stats").diameter - 1 = Len(Trace)
            /\ PrintT(<<"DONE", Len(Trace), TLCGet("stats").diameter - 1>>)
=============================================================================
