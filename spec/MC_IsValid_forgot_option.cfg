SPECIFICATION Spec
CONSTANT Variant = "forgot_option"
INVARIANT V2
INVARIANT V3
CHECK_DEADLOCK FALSE
