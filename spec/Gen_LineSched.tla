---------------------------- MODULE Gen_LineSched ----------------------------
(* Thread schedules at LINE granularity for the lazily-filled caches: two threads *)
(* each execute up to L line steps inside the cache functions; a schedule is the  *)
(* order in which the steps are granted.  All schedules with at most MaxPre        *)
(* preemptions (switching away from a thread that could continue) are generated;   *)
(* the driver replays each one with a sys.settrace scheduler -- no hooks needed.   *)
EXTENDS Naturals, Sequences, TLC
CONSTANTS L, MaxPre
VARIABLES p1, p2, cur, pre, s
Init == p1 = 0 /\ p2 = 0 /\ cur \in {"t1", "t2"} /\ pre = 0 /\ s = <<>>
Pos(t) == IF t = "t1" THEN p1 ELSE p2
Other(t) == IF t = "t1" THEN "t2" ELSE "t1"
Step(t) == /\ Pos(t) < L
           /\ IF t = "t1" THEN p1' = p1 + 1 /\ UNCHANGED p2 ELSE p2' = p2 + 1 /\ UNCHANGED p1
           /\ s' = Append(s, t)
Continue == Step(cur) /\ UNCHANGED <<cur, pre>>
(* switch: free when the current thread is finished, a preemption otherwise *)
Switch == /\ Pos(Other(cur)) < L
          /\ IF Pos(cur) < L THEN pre < MaxPre /\ pre' = pre + 1 ELSE UNCHANGED pre
          /\ cur' = Other(cur) /\ Step(Other(cur))
Next == Continue \/ Switch
Spec == Init /\ [][Next]_<<p1, p2, cur, pre, s>>
Emit == (p1 < L \/ p2 < L) \/ PrintT(<<"LSCHED", s>>)
=============================================================================
