SPECIFICATION Spec
INVARIANT Emit
CHECK_DEADLOCK FALSE
CONSTANTS
  PerThread = 4
