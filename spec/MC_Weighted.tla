---------------------------- MODULE MC_Weighted ----------------------------
EXTENDS Naturals, Sequences, TLC, IOUtils
Desc(k) == [i \in 1..k |-> k + 1 - i]                         \* k, k-1, ..., 1
Ean(k) == [i \in 1..k |-> IF (k - i) % 2 = 0 THEN 1 ELSE 3]    \* ..., 3, 1, 3, 1 (check digit weight 1)
FDef == CASE IOEnv.FORMAT = "isbn10" -> [len |-> 10, w |-> Desc(10), m |-> 11, lastx |-> TRUE, swap |-> TRUE]
          [] IOEnv.FORMAT = "issn"   -> [len |-> 8, w |-> Desc(8), m |-> 11, lastx |-> TRUE, swap |-> TRUE]
          [] IOEnv.FORMAT = "ean13"  -> [len |-> 13, w |-> Ean(13), m |-> 10, lastx |-> FALSE, swap |-> FALSE]
          [] IOEnv.FORMAT = "ean8"   -> [len |-> 8, w |-> Ean(8), m |-> 10, lastx |-> FALSE, swap |-> FALSE]
          [] IOEnv.FORMAT = "ean12"  -> [len |-> 12, w |-> Ean(12), m |-> 10, lastx |-> FALSE, swap |-> FALSE]
          [] IOEnv.FORMAT = "ean14"  -> [len |-> 14, w |-> Ean(14), m |-> 10, lastx |-> FALSE, swap |-> FALSE]
          [] IOEnv.FORMAT = "NEG_ean_swap" -> [len |-> 13, w |-> Ean(13), m |-> 10, lastx |-> FALSE, swap |-> TRUE]
VARIABLES pos, r1, r2, phase, h1, h2
INSTANCE Weighted WITH F <- FDef
=============================================================================
