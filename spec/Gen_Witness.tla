----------------------------- MODULE Gen_Witness -----------------------------
(* Consumer-level witnesses built BY THE SPEC from registry entries (C11):      *)
(*  - for every IBAN country structure a BBAN drawn from its n/a/c tokens with  *)
(*    check digits computed by the ISO 7064 Mod 97-10 automaton;                *)
(*  - for every ISBN publisher range an ISBN-13 inside it with its EAN check    *)
(*    digit.                                                                    *)
(* DB_FILE holds {"dbs": [iban tree, isbn tree]}.                               *)
EXTENDS NumDBFile, Checksums, TLC, Json, IOUtils

DBS == JsonDeserialize(IOEnv.DB_FILE).dbs
IbanDB == DBS[1]
IsbnDB == DBS[2]

(* ---- IBAN ---- *)
PropOf(e, key) == LET idx == {i \in 1..Len(e.props) : e.props[i][1] = key}
                  IN IF idx = {} THEN "" ELSE e.props[CHOOSE i \in idx : TRUE][2]
(* structure text such as 4!n4!n12!c, as code points *)
(* total: a token that is not <digits>!<n|a|c> yields the marker <<0, 0>>         *)
RECURSIVE ParseStruct(_, _, _)
ParseStruct(t, i, acc) ==
  IF i > Len(t) THEN acc
  ELSE LET b == NextCp(t, i, 33)                       \* '!'
       IN IF b + 1 > Len(t) \/ b = i \/ ~IsDigits(SubSeq(t, i, b - 1)) \/ t[b + 1] \notin {110, 97, 99}
          THEN Append(acc, <<0, 0>>)
          ELSE ParseStruct(t, b + 2, Append(acc, <<FoldLeft(LAMBDA a, c : 10 * a + (c - 48), 0, SubSeq(t, i, b - 1)), t[b + 1]>>))
StructOK(st) == st # <<>> /\ \A i \in 1..Len(st) : st[i] # <<0, 0>>
(* characters for a token: n digits, a letters, c mixed; seed varies the choice *)
TokenChars(n, ty, seed) ==
  [k \in 1..n |-> IF ty = 110 THEN 48 + ((k + seed) % 10)                           \* n
                  ELSE IF ty = 97 THEN 65 + ((k + seed) % 26)                       \* a
                  ELSE IF (k + seed) % 2 = 0 THEN 48 + ((k + seed) % 10) ELSE 65 + ((k * 7 + seed) % 26)]
Bban(struct, seed) == FoldLeft(LAMBDA acc, tk : acc \o TokenChars(tk[1], tk[2], seed + Len(acc)), <<>>, struct)
Val36(c) == IF c < 58 THEN c - 48 ELSE c - 55
Mod97(s) == FoldLeft(LAMBDA q, c : M97Step(q, Val36(c)), 0, s)
IbanOf(cc, bban) == LET r == Mod97(bban \o cc \o <<48, 48>>)
                        cd == 98 - r
                    IN cc \o <<48 + (cd \div 10), 48 + (cd % 10)>> \o bban
IbanWitnesses ==
  { LET st == ParseStruct(IbanDB[i].bbancp, 1, <<>>)
    IN IF StructOK(st) THEN [kind |-> "IBAN", cc |-> IbanDB[i].low, w |-> IbanOf(IbanDB[i].low, Bban(st, seed))]
       ELSE [kind |-> "IBANBAD", cc |-> IbanDB[i].low, w |-> IbanDB[i].bbancp]
      : i \in 1..Len(IbanDB), seed \in {0, 3} }

(* ---- ISBN ---- *)
EanCheck(s) == LET sum == FoldLeft(LAMBDA acc, i : acc + (IF i % 2 = 1 THEN 1 ELSE 3) * (s[i] - 48), 0, [i \in 1..Len(s) |-> i])
               IN 48 + ((10 - (sum % 10)) % 10)
Pad12(p) == IF Len(p) >= 12 THEN SubSeq(p, 1, 12) ELSE p \o [i \in 1..(12 - Len(p)) |-> 48 + (i % 10)]
Isbn13(p) == LET b == Pad12(p) IN Append(b, EanCheck(b))
IsbnWitnesses ==
  UNION { UNION { UNION { { [kind |-> "ISBN", w |-> Isbn13(IsbnDB[a].low \o IsbnDB[a].kids[b].low \o pb),
                             path |-> <<IsbnDB[a].low, IsbnDB[a].kids[b].low, pb>>]
                            : pb \in {IsbnDB[a].kids[b].kids[c].low, IsbnDB[a].kids[b].kids[c].high} }
                          : c \in 1..Len(IsbnDB[a].kids[b].kids) }
                  : b \in 1..Len(IsbnDB[a].kids) }
          : a \in 1..Len(IsbnDB) }

(* a registrant range must be a leaf: an entry nested below one (a line indented too far) would make the hyphenation six parts *)
IsbnDeepWitnesses ==
  UNION { UNION { UNION { UNION { { [kind |-> "ISBN", w |-> Isbn13(IsbnDB[a].low \o IsbnDB[a].kids[b].low \o IsbnDB[a].kids[b].kids[c].low \o pd),
                                     path |-> <<IsbnDB[a].low, IsbnDB[a].kids[b].low, IsbnDB[a].kids[b].kids[c].low \o pd>>]
                                    : pd \in {IsbnDB[a].kids[b].kids[c].kids[d].low, IsbnDB[a].kids[b].kids[c].kids[d].high} }
                                  : d \in 1..Len(IsbnDB[a].kids[b].kids[c].kids) }
                          : c \in 1..Len(IsbnDB[a].kids[b].kids) }
                  : b \in 1..Len(IsbnDB[a].kids) }
          : a \in 1..Len(IsbnDB) }

VARIABLE done
Init == done = FALSE
Next == ~done /\ done' = TRUE
       /\ (\A w \in IbanWitnesses : PrintT(<<"WIT", w>>))
       /\ (\A w2 \in IsbnWitnesses \cup IsbnDeepWitnesses : PrintT(<<"WIT", w2>>))
Spec == Init /\ [][Next]_done
=============================================================================
