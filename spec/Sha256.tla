------------------------------ MODULE Sha256 ------------------------------
(* SHA-256 (FIPS 180-4) on pairs of 16-bit limbs (TLC integers are 32 bit); loops are FoldLeft because *)
(* TLC passes operator arguments by name.                                                            *)
EXTENDS Naturals, Sequences, SequencesExt, Bitwise, TLC
K == <<<<17034,12184>>, <<28983,17553>>, <<46528,64463>>, <<59829,56229>>, <<14678,49755>>, <<23025,4593>>, <<37439,33444>>, <<43804,24277>>, <<55303,43672>>, <<4739,23297>>, <<9265,34238>>, <<21772,32195>>, <<29374,23924>>, <<32990,45566>>, <<39900,1703>>, <<49563,61812>>, <<58523,27073>>, <<61374,18310>>, <<4033,40390>>, <<9228,41420>>, <<11753,11375>>, <<19060,33962>>, <<23728,43484>>, <<30457,35034>>, <<38974,20818>>, <<43057,50797>>, <<45059,10184>>, <<48985,32711>>, <<50912,3059>>, <<54695,37191>>, <<1738,25425>>, <<5161,10599>>, <<10167,2693>>, <<11803,8504>>, <<19756,28156>>, <<21304,3347>>, <<25866,29524>>, <<30314,2747>>, <<33218,51502>>, <<37490,11397>>, <<41663,59553>>, <<43034,26187>>, <<49739,35696>>, <<51052,20899>>, <<53650,59417>>, <<54937,1572>>, <<62478,13701>>, <<4202,41072>>, <<6564,49430>>, <<7735,27656>>, <<10056,30540>>, <<13488,48309>>, <<14620,3251>>, <<20184,43594>>, <<23452,51791>>, <<26670,28659>>, <<29839,33518>>, <<30885,25455>>, <<33992,30740>>, <<36039,520>>, <<37054,65530>>, <<42064,27883>>, <<48889,41975>>, <<50801,30962>>>>
H0 == <<<<27145,58983>>, <<47975,44677>>, <<15470,62322>>, <<42319,62778>>, <<20750,21119>>, <<39685,26764>>, <<8067,55723>>, <<23520,52505>>>>
M == 65536
XorW(a,b) == <<a[1] ^^ b[1], a[2] ^^ b[2]>>
AndW(a,b) == <<a[1] & b[1], a[2] & b[2]>>
NotW(a) == <<65535 - a[1], 65535 - a[2]>>
AddW(a,b) == LET lo == a[2] + b[2] IN << (a[1] + b[1] + (lo \div M)) % M, lo % M >>
RotS(w, n) == \* 0 < n < 16
  LET p == 2^n  q == 2^(16-n) IN << (w[1] \div p) + (w[2] % p) * q, (w[2] \div p) + (w[1] % p) * q >>
RotR(w, n) == IF n = 16 THEN <<w[2], w[1]>> ELSE IF n < 16 THEN RotS(w, n) ELSE RotS(<<w[2], w[1]>>, n - 16)
ShR(w, n) == IF n < 16 THEN LET p == 2^n  q == 2^(16-n) IN << w[1] \div p, (w[2] \div p) + (w[1] % p) * q >>
             ELSE << 0, w[1] \div (2^(n-16)) >>
S0(x) == XorW(XorW(RotR(x,2), RotR(x,13)), RotR(x,22))
S1(x) == XorW(XorW(RotR(x,6), RotR(x,11)), RotR(x,25))
s0(x) == XorW(XorW(RotR(x,7), RotR(x,18)), ShR(x,3))
s1(x) == XorW(XorW(RotR(x,17), RotR(x,19)), ShR(x,10))
Ch(e,f,g) == XorW(AndW(e,f), AndW(NotW(e), g))
Maj(a,b,c) == XorW(XorW(AndW(a,b), AndW(a,c)), AndW(b,c))
\* message schedule: extend 16 words to 64 (eager fold: TLC operator arguments are by-name)
SchedStep(w, i) == Append(w, AddW(AddW(s1(w[i-2]), w[i-7]), AddW(s0(w[i-15]), w[i-16])))
Sched(w16) == FoldLeft(SchedStep, w16, [k \in 1..48 |-> 16 + k])
RoundOp(w, st, i) ==
   LET a == st[1] b == st[2] c == st[3] d == st[4] e == st[5] f == st[6] g == st[7] h == st[8]
       t1 == AddW(AddW(AddW(h, S1(e)), AddW(Ch(e,f,g), K[i])), w[i])
       t2 == AddW(S0(a), Maj(a,b,c))
   IN <<AddW(t1,t2), a, b, c, AddW(d,t1), e, f, g>>
Compress(h, blockWords) == LET w == Sched(blockWords)
                              r == FoldLeft(LAMBDA st, i : RoundOp(w, st, i), h, [k \in 1..64 |-> k])
                          IN [i \in 1..8 |-> AddW(h[i], r[i])]
\* bytes -> padded sequence of 32-bit words (message length < 2^16 bits is enough here)
Pad(bytes) == LET n == Len(bytes)
                  z == (119 - n) % 64      \* zero bytes so that total = 0 mod 64
              IN bytes \o <<128>> \o [i \in 1..z |-> 0] \o <<0,0,0,0,0,0, (n*8) \div 256, (n*8) % 256>>
Words(bytes) == [i \in 1..(Len(bytes) \div 4) |-> << bytes[4*i-3]*256 + bytes[4*i-2], bytes[4*i-1]*256 + bytes[4*i] >>]
RECURSIVE Blocks(_,_)
Blocks(h, ws) == IF ws = <<>> THEN h ELSE Blocks(Compress(h, SubSeq(ws,1,16)), SubSeq(ws,17,Len(ws)))
Sha256(bytes) == LET h == Blocks(H0, Words(Pad(bytes)))
                 IN [i \in 1..32 |-> LET w == h[(i-1) \div 4 + 1]  k == (i-1) % 4 IN
                       IF k = 0 THEN w[1] \div 256 ELSE IF k = 1 THEN w[1] % 256 ELSE IF k = 2 THEN w[2] \div 256 ELSE w[2] % 256]
====
