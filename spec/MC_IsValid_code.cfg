SPECIFICATION Spec
CONSTANT Variant = "code"
INVARIANT V2
INVARIANT V3
CHECK_DEADLOCK FALSE
