-------------------------------- MODULE GS1 --------------------------------
(* GS1-128 element strings: the encoder on canonical values, over the REAL      *)
(* application identifier table (rows given as data: ai, parts, type, fnc1).    *)
(*   parts: sequence of [cls, min, max] (N numeric, X/Y/Z alphanumeric sets)    *)
(*   value: [t |-> "str", s] | [t |-> "int", s (digits)] |                      *)
(*          [t |-> "dec", s (unscaled digits), scale] | [t |-> "date", d <<yy,mm,dd>>] *)
(* Encode: sorted by AI; fixed-length identifiers first; variable-length ones   *)
(* followed by the separator, or padded to their maximum length when there is   *)
(* none (zeros on the left for numbers, spaces on the right otherwise); nothing *)
(* after the last element; optional parentheses around identifiers.             *)
EXTENDS Text, TLC

MaxLen(row) == FoldLeft(LAMBDA a, p : a + p.max, 0, row.parts) + (IF row.type = "decimal" THEN 1 ELSE 0)
IsFixedPart(row) == Len(row.parts) = 1 /\ row.parts[1].min = row.parts[1].max
Two(n) == <<48 + (n \div 10), 48 + (n % 10)>>

EncVal(row, val) ==
  CASE val.t = "str" -> val.s
    [] val.t = "int" -> val.s
    [] val.t = "dec" -> IF IsFixedPart(row) THEN <<48 + val.scale>> \o ZFill(val.s, row.parts[1].max)
                        ELSE <<48 + val.scale>> \o val.s
    [] val.t = "date" -> Two(val.d[1]) \o Two(val.d[2]) \o Two(val.d[3])

PadTo(row, enc) == LET n == MaxLen(row) IN
                   IF Len(enc) >= n THEN enc
                   ELSE IF row.type \in {"decimal", "int"} THEN [i \in 1..(n - Len(enc)) |-> 48] \o enc
                   ELSE enc \o [i \in 1..(n - Len(enc)) |-> 32]
AiText(row, paren) == IF paren THEN <<40>> \o row.ai \o <<41>> ELSE row.ai

(* m: sequence of [row, val] sorted by AI *)
Encode(m, sep, paren) ==
  LET fixed == SelectSeq(m, LAMBDA x : ~x.row.fnc1)
      vars == SelectSeq(m, LAMBDA x : x.row.fnc1)
      fx == FoldLeft(LAMBDA acc, x : acc \o AiText(x.row, paren) \o EncVal(x.row, x.val), <<>>, fixed)
      vx == FoldLeft(LAMBDA acc, i :
                acc \o AiText(vars[i].row, paren) \o
                (IF i < Len(vars)
                 THEN (IF sep # <<>> THEN EncVal(vars[i].row, vars[i].val) \o sep ELSE PadTo(vars[i].row, EncVal(vars[i].row, vars[i].val)))
                 ELSE EncVal(vars[i].row, vars[i].val)),
              <<>>, [i \in 1..Len(vars) |-> i])
  IN fx \o vx

(* values that fit their declared format (the generator's obligation, re-checked: clause M1) *)
ClsOK(cls, c) == IF cls = "N" THEN IsDigitCp(c) ELSE (c >= 33 /\ c <= 122 /\ c \notin {40, 41})
FitsStr(row, s) == /\ Len(s) >= FoldLeft(LAMBDA a, p : a + p.min, 0, row.parts) /\ Len(s) <= MaxLen(row)
                   /\ Len(s) >= 1 /\ s[1] # 32 /\ s[Len(s)] # 32
Fits(row, val) ==
  CASE val.t = "str" -> FitsStr(row, val.s)
    [] val.t = "int" -> IsDigits(val.s) /\ Len(val.s) <= MaxLen(row) /\ (Len(val.s) = 1 \/ val.s[1] # 48)
    [] val.t = "dec" -> IsDigits(val.s) /\ val.scale \in 0..9 /\ Len(val.s) <= MaxLen(row) - 1 /\ (Len(val.s) = 1 \/ val.s[1] # 48)
                        /\ val.scale < Len(val.s) + 1
    [] val.t = "date" -> val.d[2] \in 1..12 /\ val.d[3] \in 1..31
=============================================================================
