SPECIFICATION Spec
VIEW view
INVARIANT SubstDetected
INVARIANT SwapDetected
INVARIANT CheckUnique
CHECK_DEADLOCK FALSE
