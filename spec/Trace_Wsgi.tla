----------------------------- MODULE Trace_Wsgi -----------------------------
EXTENDS Wsgi, Json, IOUtils
Trace == ndJsonDeserialize(IOEnv.TRACE_FILE)
VARIABLES l, nrej, proc, loaded
Loaded(e) == IF e.proc = proc THEN loaded ELSE FALSE
ClauseNames == <<"Q1", "Q2", "Q3", "Q4", "Q5", "Q6", "T0">>
Clauses(e) == [Q1 |-> Q1(e), Q2 |-> Q2(e), Q3 |-> Q3(e), Q4 |-> Q4(e), Q5 |-> Q5(e), Q6 |-> Q6(e), T0 |-> T0(e, Loaded(e))]
Failing(e) == LET c == Clauses(e) IN SelectSeq(ClauseNames, LAMBDA n : ~c[n])
Init == l = 1 /\ nrej = 0 /\ proc = 0 /\ loaded = FALSE
Step == /\ l <= Len(Trace)
        /\ LET e == Trace[l]  bad == Failing(e)
           IN /\ IF bad = <<>> THEN nrej' = nrej
                 ELSE nrej' = nrej + 1 /\ PrintT(<<"REJ", e.tid, l, bad>>)
              /\ proc' = e.proc /\ loaded' = TRUE
        /\ l' = l + 1
Spec == Init /\ [][Step]_<<l, nrej, proc, loaded>>
Accepted == /\ TLCGet("stats").diameter - 1 = Len(Trace)
            /\ PrintT(<<"DONE", Len(Trace), TLCGet("stats").diameter - 1>>)
=============================================================================
