----------------------------- MODULE Gen_Formats -----------------------------
(* Spec -> code for C07: identifiers CONSTRUCTED from the transcription (random *)
(* payload of the right shape, check characters computed by the spec), covering *)
(* every length and branch of every format (X check characters, 979 prefix, SBN,  *)
(* IMEISV, short ISO 11649 references ...).  Each one must satisfy the spec's own  *)
(* Accept (invariant SelfConsistent) and must be accepted by the implementation.   *)
EXTENDS Naturals, Sequences, SequencesExt, FiniteSets, TLC, Json, IOUtils
T == JsonDeserialize(IOEnv.TABLE_FILE)
TablesDef == [isin_cc |-> {T.isin_cc[i] : i \in 1..Len(T.isin_cc)}, isrc_cc |-> {T.isrc_cc[i] : i \in 1..Len(T.isrc_cc)}, iban |-> T.iban]
F == INSTANCE Formats WITH Tables <- TablesDef

R(S) == RandomElement(S)
Dg(n) == [i \in 1..n |-> R(48..57)]
Up(n) == [i \in 1..n |-> R(65..90)]
An(n) == [i \in 1..n |-> R((48..57) \cup (65..90))]
Sd(n) == [i \in 1..n |-> R(((48..57) \cup (65..90)) \ F!Vowels)]
Dig(d) == 48 + d
Mod11Ch(r) == IF r = 10 THEN 88 ELSE 48 + r
EanC(body) == Dig((10 - (F!Sum(LAMBDA i : (IF (Len(body) + 1 - i) % 2 = 0 THEN 1 ELSE 3) * F!D(body[i]), Len(body)) % 10)) % 10)
Isbn10C(b) == Mod11Ch((11 - (F!Sum(LAMBDA i : (11 - i) * F!D(b[i]), 9) % 11)) % 11)
IssnC(b) == Mod11Ch((11 - (F!Sum(LAMBDA i : (9 - i) * F!D(b[i]), 7) % 11)) % 11)
LuhnC(b) == LET n == Len(b) IN Dig((10 - (F!Sum(LAMBDA i : IF (n - i) % 2 = 0 THEN F!DigitSum(2 * F!D(b[i])) ELSE F!D(b[i]), n) % 10)) % 10)
M112C(b) == LET q == FoldLeft(LAMBDA a, ch : (2 * a + F!Mod11Val(ch)) % 11, 0, b) IN Mod11Ch((12 - ((2 * q) % 11)) % 11)
Two(n) == <<48 + (n \div 10), 48 + (n % 10)>>
M97C(rot) == Two(98 - F!Mod97(rot \o <<48, 48>>))
M3736C(b) == LET q == FoldLeft(LAMBDA a, ch : ((((IF a = 0 THEN 36 ELSE a) * 2) % 37) + F!V36(ch)) % 36, 18, b)
                 v == (37 - (((IF q = 0 THEN 36 ELSE q) * 2) % 37)) % 36
             IN IF v < 10 THEN 48 + v ELSE 55 + v
Pick(S) == CHOOSE x \in {R(S)} : TRUE
Make(f) ==
  CASE f = "ean8" -> LET b == Dg(7) IN Append(b, EanC(b))
    [] f = "ean12" -> LET b == Dg(11) IN Append(b, EanC(b))
    [] f = "ean13" -> LET b == Dg(12) IN Append(b, EanC(b))
    [] f = "ean14" -> LET b == Dg(13) IN Append(b, EanC(b))
    [] f = "isbn10" -> LET b == Dg(9) IN Append(b, Isbn10C(b))
    [] f = "isbn13" -> LET b == R({<<57, 55, 56>>, <<57, 55, 57>>}) \o Dg(9) IN Append(b, EanC(b))
    [] f = "issn" -> LET b == Dg(7) IN Append(b, IssnC(b))
    [] f = "ismn10" -> LET b == Dg(8) IN <<77>> \o Append(b, EanC(<<57, 55, 57, 48>> \o b))
    [] f = "ismn13" -> LET b == <<57, 55, 57, 48>> \o Dg(8) IN Append(b, EanC(b))
    [] f = "imei15" -> LET b == Dg(14) IN Append(b, LuhnC(b))
    [] f = "imei14" -> Dg(14)
    [] f = "imei16" -> Dg(16)
    [] f = "isni" -> LET b == Dg(15) IN Append(b, M112C(b))
    [] f = "lei" -> LET b == An(18) IN b \o M97C(b)
    [] f = "iso11649" -> LET ref == An(R(1..21)) IN <<82, 70>> \o M97C(ref \o <<82, 70>>) \o ref
    [] f = "grid" -> LET b == An(17) IN Append(b, M3736C(b))
    [] f = "cusip" -> LET b == An(8) IN Append(b, Dig(F!CusipCheck(b)))
    [] f = "sedol" -> LET b == IF R({0, 1}) = 0 THEN Dg(6) ELSE (<<R((66..90) \ F!Vowels)>> \o Sd(5))
                      IN Append(b, Dig((10 - (F!Sum(LAMBDA i : F!SedolW[i] * F!V36(b[i]), 6) % 10)) % 10))
    [] f = "figi" -> LET b == <<R({66, 67, 68, 70, 72, 74, 75, 76, 77, 78}), R({67, 68, 70, 75, 76, 78, 80, 81, 82, 84}), 71>> \o Sd(8)
                     IN Append(b, Dig(F!FigiCheck(b)))
    [] f = "isin" -> LET b == R(TablesDef.isin_cc) \o An(9) IN Append(b, Dig(F!IsinCheck(b)))
    [] f = "imo" -> LET b == Dg(6) IN Append(b, Dig(F!Sum(LAMBDA i : (8 - i) * F!D(b[i]), 6) % 10))
    [] f = "casrn" -> LET a == <<R(49..57)>> \o Dg(R(1..6))  bb == Dg(2)  ds == a \o bb  k == Len(ds)
                      IN a \o <<45>> \o bb \o <<45>> \o <<Dig(F!Sum(LAMBDA i : (k + 1 - i) * F!D(ds[i]), k) % 10)>>
    [] f = "bic8" -> Up(6) \o An(2)
    [] f = "bic11" -> Up(6) \o An(5)
    [] f = "isrc" -> R(TablesDef.isrc_cc) \o An(3) \o Dg(7)
    (* just OUTSIDE the formats: check characters right, one length too short or too long (the empty reference, 22 characters, *)
    (* EAN / IMEI bodies of the lengths in between) -- the transcription must reject them (Outside), and so must the code (A1) *)
    [] f = "iso11649_short" -> <<82, 70>> \o M97C(<<82, 70>>)
    [] f = "iso11649_long" -> LET ref == An(22) IN <<82, 70>> \o M97C(ref \o <<82, 70>>) \o ref
    [] f = "ean_badlen" -> LET b == Dg(R({6, 8, 9, 10, 14, 15})) IN Append(b, EanC(b))
    [] f = "imei_badlen" -> LET b == Dg(R({12, 16})) IN Append(b, LuhnC(b))
Outside == {"iso11649_short", "iso11649_long", "ean_badlen", "imei_badlen"}
Kinds == {"ean8", "ean12", "ean13", "ean14", "isbn10", "isbn13", "issn", "ismn10", "ismn13", "imei15", "imei14", "imei16", "isni", "lei",
          "iso11649", "grid", "cusip", "sedol", "figi", "isin", "imo", "casrn", "bic8", "bic11", "isrc"} \cup Outside
FormatOf(k) == CASE k \in {"ean8", "ean12", "ean13", "ean14"} -> "ean" [] k \in {"isbn10", "isbn13"} -> "isbn"
                 [] k \in {"ismn10", "ismn13"} -> "ismn" [] k \in {"imei14", "imei15", "imei16"} -> "imei"
                 [] k \in {"bic8", "bic11"} -> "bic" [] k \in {"iso11649_short", "iso11649_long"} -> "iso11649"
                 [] k = "ean_badlen" -> "ean" [] k = "imei_badlen" -> "imei" [] OTHER -> k
VARIABLES kind, s
Init == kind = "none" /\ s = <<>>
Next == kind = "none" /\ \E k \in {R(Kinds)} : kind' = k /\ s' = Make(k)
Spec == Init /\ [][Next]_<<kind, s>>
SelfConsistent == kind = "none" \/ (F!Accept(FormatOf(kind), s) <=> kind \notin Outside)
Emit == kind = "none" \/ PrintT(<<"MADE", FormatOf(kind), kind, s>>)
=============================================================================
