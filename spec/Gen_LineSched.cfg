SPECIFICATION Spec
INVARIANT Emit
CHECK_DEADLOCK FALSE
CONSTANTS
  L = 10
  MaxPre = 2
