---------------------------- MODULE Trace_Bitcoin ----------------------------
EXTENDS Bitcoin, Json, IOUtils
Trace == ndJsonDeserialize(IOEnv.TRACE_FILE)
VARIABLES l, nrej
IsStrRet(r) == r.k = "ret" /\ r.t = "str"
A1(e) == IsStrRet(e.r) <=> Accept(e.x)
A2(e) == IsStrRet(e.r) => e.r.v = Canon(e.x)
ClauseNames == <<"A1", "A2">>
Clauses(e) == [A1 |-> A1(e), A2 |-> A2(e)]
Failing(e) == LET c == Clauses(e) IN SelectSeq(ClauseNames, LAMBDA n : ~c[n])
Init == l = 1 /\ nrej = 0
Step == /\ l <= Len(Trace)
        /\ LET e == Trace[l]  bad == Failing(e)
           IN IF bad = <<>> THEN nrej' = nrej ELSE nrej' = nrej + 1 /\ PrintT(<<"REJ", e.tid, l, bad>>)
        /\ l' = l + 1
Spec == Init /\ [][Step]_<<l, nrej>>
Accepted == /\ TLCGet("stats").diameter - 1 = Len(Trace)
            /\ PrintT(<<"DONE", Len(Trace), TLCGet("stats").diameter - 1>>)
=============================================================================
