---------------------------- MODULE Trace_History ----------------------------
(* C13 clause H1: the result of a call made after an arbitrary history (earlier  *)
(* calls to any modules, in-place mutation of returned containers, other threads *)
(* running) equals the result of the same call made first thing in a pristine     *)
(* interpreter.  Results are canonical JSON texts recorded by the harness.        *)
EXTENDS Naturals, Sequences, TLC, Json, IOUtils
Trace == ndJsonDeserialize(IOEnv.TRACE_FILE)
VARIABLES l, nrej
H1(e) == e.r = e.fresh
Init == l = 1 /\ nrej = 0
Step == /\ l <= Len(Trace)
        /\ LET e == Trace[l]
           IN IF H1(e) THEN nrej' = nrej ELSE nrej' = nrej + 1 /\ PrintT(<<"REJ", e.tid, l, <<"H1">>>>)
        /\ l' = l + 1
Spec == Init /\ [][Step]_<<l, nrej>>
Accepted == /\ TLCGet("stats").diameter - 1 = Len(Trace)
            /\ PrintT(<<"DONE", Len(Trace), TLCGet("stats").diameter - 1>>)
=============================================================================
