-------------------------------- MODULE Api --------------------------------
(* The contract of a number-format module, as a session machine.               *)
(*                                                                             *)
(* One session = one application talking to one module about one number:      *)
(* it validates a presentation, asks is_valid, stores what validate returned,  *)
(* re-validates the stored value, compacts, formats, re-validates the          *)
(* formatted text, ...  The state remembers what the earlier steps returned;   *)
(* every later step is constrained by it.  The clauses are the listed          *)
(* properties C01 (V..), C02 (F..), C03 (D..), C04 (G..), C15 (S..).          *)
(*                                                                             *)
(* A result r is a record                                                      *)
(*   [k |-> "ret" | "exc", t |-> type name, v |-> code points of a returned    *)
(*    str, b |-> the value of a returned bool, mro |-> exception MRO, ...]     *)
EXTENDS Text, TLC

VE == "stdnum.exceptions.ValidationError"

IsRet(r)    == r.k = "ret"
IsStrRet(r) == r.k = "ret" /\ r.t = "str"
IsVE(r)     == r.k = "exc" /\ \E i \in 1..Len(r.mro) : r.mro[i] = VE
IsBoolRet(r) == r.k = "ret" /\ r.t = "bool"

NoResult == [k |-> "none", t |-> "", v |-> <<>>, b |-> FALSE, mro |-> <<>>]

(* accepted-with-value / rejected: the outcome the properties compare          *)
Outcome(r) == IF IsStrRet(r) THEN <<"acc", r.v>> ELSE <<"rej">>

Fresh(tid) == [tid |-> tid, o |-> "", m |-> "", v |-> NoResult, c |-> NoResult, c2 |-> NoResult,
               f |-> NoResult, fo |-> ""]

(* ---- exclusions that the properties themselves name (constants of the spec) ---- *)
C03Excluded == {"isan", "meid", "us.ssn", "us.itin", "us.ein", "us.atin", "us.tin"}
C15Excluded == {"de.handelsregisternummer", "mx.rfc", "es.referenciacatastral",
                "luhn", "verhoeff", "damm", "iso7064.mod_11_2", "iso7064.mod_11_10",
                "iso7064.mod_37_2", "iso7064.mod_37_36", "iso7064.mod_97_10"}

(* ---- C01 ------------------------------------------------------------------------ *)
V1(e)    == e.a \in {"validate", "validate2"} => (IsStrRet(e.r) \/ IsVE(e.r))
V2(e)    == e.a = "is_valid" => IsBoolRet(e.r)
V3(e, s) == (e.a = "is_valid" /\ s.v.k # "none" /\ s.o = e.o /\ s.m = e.m /\ IsBoolRet(e.r))
              => (e.r.b = IsRet(s.v))

(* ---- C02 ------------------------------------------------------------------------ *)
F1(e, s) == (e.a = "revalidate" /\ IsStrRet(s.v)) => (IsStrRet(e.r) /\ e.r.v = s.v.v)
F2(e)    == (e.a \in {"validate", "validate2"} /\ IsStrRet(e.r)) => NoEdgeSpace(e.r.v)

(* ---- C03 ------------------------------------------------------------------------ *)
SameCompact(s) == IsStrRet(s.c) /\ IsStrRet(s.c2) /\ s.c.v = s.c2.v
D1(e, s) == (e.a = "validate2" /\ e.m \notin C03Excluded /\ s.v.k # "none" /\ s.o = e.o /\ SameCompact(s))
              => Outcome(e.r) = Outcome(s.v)

(* ---- C15 ------------------------------------------------------------------------ *)
(* the world-wide VAT dispatcher hands MX numbers to mx.rfc, one of the excepted formats: its N-tilde comes through *)
ViaExcepted(e) == e.m = "vatin" /\ Len(e.r.v) >= 2 /\ SubSeq(e.r.v, 1, 2) = <<77, 88>>
                  /\ \A i \in 1..Len(e.r.v) : e.r.v[i] < 128 \/ e.r.v[i] \in {209, 241}
S1(e)    == (e.a \in {"validate", "validate2"} /\ e.m \notin C15Excluded /\ IsStrRet(e.r))
              => (IsAscii(e.r.v) \/ ViaExcepted(e))
(* observation, not part of C15 as stated: in the three formats that the property excepts because their own alphabet has   *)
(* national letters, the non-ASCII characters of a result are those letters (umlauts and sharp s; N-tilde) and nothing else *)
NationalLetters(m) == CASE m \in {"mx.rfc", "es.referenciacatastral"} -> {209, 241}
                        [] m = "de.handelsregisternummer" -> {196, 214, 220, 228, 246, 252, 223}
                        [] OTHER -> {}
S1x(e)   == (e.a \in {"validate", "validate2"} /\ e.m \in {"de.handelsregisternummer", "mx.rfc", "es.referenciacatastral"} /\ IsStrRet(e.r))
              => \A i \in 1..Len(e.r.v) : e.r.v[i] < 128 \/ e.r.v[i] \in NationalLetters(e.m)

(* ---- machinery clauses: the driver really fed what the session prescribes -------- *)
M1(e, s) == (e.a = "revalidate" /\ IsStrRet(s.v)) => e.x = s.v.v
M2(e, s) == (e.a = "validate_f" /\ IsStrRet(s.f)) => e.x = s.f.v
M3(e, s) == (e.a = "format_v" /\ IsStrRet(s.v)) => e.x = s.v.v

Apply(e, s) ==
  CASE e.a = "validate"  -> [s EXCEPT !.v = e.r, !.o = e.o, !.m = e.m]
    [] e.a = "compact"   -> [s EXCEPT !.c = e.r]
    [] e.a = "compact2"  -> [s EXCEPT !.c2 = e.r]
    [] e.a = "format"    -> [s EXCEPT !.f = e.r, !.fo = e.o]
    [] OTHER             -> s
=============================================================================
