------------------------------- MODULE Clean -------------------------------
(* The character clean-up of stdnum.util.clean as a transducer:                *)
(*      Clean(s, del) = Delete(MapAll(s), del)                                  *)
(* where the character map is NOT pinned by the specification: it is observed   *)
(* (one event per code point / identity run, covering all 1,114,112 code        *)
(* points) and constrained by what Unicode says about each character            *)
(* (environment facts: decimal value, general category).                        *)
EXTENDS Text

MapCp(map, c) == IF c \in DOMAIN map THEN map[c] ELSE <<c>>
MapAll(map, s) == FoldLeft(LAMBDA acc, c : acc \o MapCp(map, c), <<>>, s)
CleanSpec(map, s, del) == SelectSeq(MapAll(map, s), LAMBDA c : \A i \in 1..Len(del) : del[i] # c)

(* ---- constraints on one observed map entry  cp |-> out  with Unicode facts dec, cat ---- *)
Changed(cp, out) == out # <<cp>>
U1(cp, out, dec) == (Len(out) = 1 /\ IsDigitCp(out[1]) /\ Changed(cp, out)) => dec = out[1] - 48
U2(cp, out, cat) == (out = <<32>> /\ Changed(cp, out)) => cat = "Zs"
U3(cp, out) == IsAlnumCp(cp) => out = <<cp>>
U4(cp, out) == Changed(cp, out) => \A i \in 1..Len(out) : ~IsAlphaCp(out[i])
U5(cp, out, nonfixed) == Changed(cp, out) => (Len(out) = 1 /\ out[1] < 128 /\ out[1] \notin nonfixed)
=============================================================================
