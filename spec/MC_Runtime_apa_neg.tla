--------------------------- MODULE MC_Runtime_apa_neg ---------------------------
(* Apalache instance of Runtime.tla (the code as it is: all hazard switches off, I/O faults on) for an INDUCTIVE     *)
(* invariant: PureResults holds for 2 threads and ANY number of calls per thread (MaxCalls is only a type bound).    *)
(*   apalache-mc check --init=Init   --inv=IndInv      --length=0 MC_Runtime_apa.tla      (initial states)           *)
(*   apalache-mc check --init=IndInv --inv=IndInv      --length=1 MC_Runtime_apa.tla      (inductive step)           *)
(*   apalache-mc check --init=IndInv --inv=PureResults --length=0 MC_Runtime_apa.tla      (it implies the property)  *)
EXTENDS Naturals, Sequences, FiniteSets

Threads == {"t1", "t2"}
Names == {"be/banks", "isbn"}
Codes == {"el", "xi", "zz"}
MaxCalls == 1000000
StoreFirst == FALSE
BaseKey == FALSE
AliasProps == FALSE
CacheBeforeMember == FALSE
NoImportFallback == TRUE
Faults == TRUE

VARIABLES
  \* @type: Str -> { present: Bool, owner: Str, full: Bool, dirty: Bool };
  db,
  \* @type: Str -> Str;
  cc,
  \* @type: Str -> Str;
  imp,
  \* @type: Str -> Str;
  pc,
  \* @type: Str -> Str;
  arg,
  \* @type: Str -> Int;
  calls,
  \* @type: Str -> Seq(Str);
  ret,
  \* @type: Str -> Str;
  held

INSTANCE Runtime

CCDom == {Target(Alias(x)) : x \in Codes} \cup Codes
PCs == {"idle", "check", "parse", "store", "use", "fill", "vmember", "vcache", "vimport", "vattach", "vgetattr", "done"}
\* @type: Set(Seq(Str));
RetVals == {<<"none">>, <<"raise", "IOError">>} \cup {<<"module", k>> : k \in CCDom} \cup {File(n) : n \in Names}
             \cup {<<"partial", n>> : n \in Names} \cup {<<"mutated", n>> : n \in Names}

TypeOK ==
  /\ db \in [Keys -> [present : BOOLEAN, owner : Names \cup {"none"}, full : BOOLEAN, dirty : BOOLEAN]]
  /\ cc \in [CCDom -> CCDom \cup {"absent", "None"}]
  /\ imp \in [CCDom -> {"absent", "body_done", "attached"}]
  /\ pc \in [Threads -> PCs]
  /\ arg \in [Threads -> Names \cup Codes \cup {"none"}]
  /\ calls \in [Threads -> Nat]
  /\ ret \in [Threads -> RetVals]
  /\ held \in [Threads -> {"none"}]

IndInv ==
  /\ TypeOK
  \* what is in the numdb cache is complete, clean and belongs to its key
  /\ \A k \in Keys : db[k].present => (db[k].full /\ ~db[k].dirty /\ db[k].owner = k)
  \* the country cache holds nothing or the module itself
  /\ \A k \in CCDom : cc[k] \in {"absent", k}
  \* program counters and arguments
  /\ \A t \in Threads :
       /\ pc[t] # "fill"
       /\ (pc[t] \in {"check", "parse", "store", "use"} => arg[t] \in Names)
       /\ (pc[t] = "use" => db[Key(arg[t])].present)
       /\ (pc[t] = "vmember" => arg[t] \in Codes)
       /\ (pc[t] \in {"vcache", "vimport", "vattach", "vgetattr"} => (arg[t] \in Codes /\ Alias(arg[t]) \in Members))
       /\ (pc[t] = "done" => (arg[t] \in Names \cup Codes))
  /\ PureResults
=============================================================================
