------------------------------- MODULE Convert -------------------------------
(* C08: conversions between formats preserve validity and identity.            *)
(* One session per valid source number v: the conversion is applied to several *)
(* presentations of v (compact, space-, hyphen-separated).  Per event:         *)
(*    w     what the conversion returned                                       *)
(*    dv    what the TARGET format's validator says about w                    *)
(*    inv   what the inverse conversion (where one exists) makes of w, again   *)
(*          in canonical source form                                           *)
(* K0 a valid source converts (or is refused with a ValidationError where the  *)
(*    row documents unsupported sources)   K1 the result is valid in the       *)
(* target format   K2 it embeds the same identity (per row, positional)        *)
(* K3 the inverse undoes it   K4 the outcome does not depend on separators     *)
EXTENDS Text, TLC

IsStrRet(r) == r.k = "ret" /\ r.t = "str"
IsVE(r) == r.k = "exc" /\ \E i \in 1..Len(r.mro) : r.mro[i] = "stdnum.exceptions.ValidationError"
S(str) == str   \* strings are given as code point sequences by the rows below
Slice(s, a, b) == SubSeq(s, a, b)

(* rows that may refuse a valid source with a ValidationError (documented) *)
MayRefuse == {"isbn.to_isbn10", "de.stnr.to_country_number", "it.aic.to_base32", "be.iban.to_bic", "cz.bankaccount.to_bic"}
(* rows whose target has no validator of its own in the library (nothing to check for K1) *)
NoTarget == {"meid.to_pseudo_esn", "pe.ruc.to_dni"}

(* an ISAN without its check characters: 16 (root + episode) or 24 (+ version) hexadecimal digits *)
IsanCore(x) == CASE Len(x) = 17 -> SubSeq(x, 1, 16)
                 [] Len(x) = 26 -> SubSeq(x, 1, 16) \o SubSeq(x, 18, 25)
                 [] Len(x) = 25 -> SubSeq(x, 1, 16) \o SubSeq(x, 18, 25)
                 [] OTHER -> x
Embeds(row, v, d, opt) ==
  CASE row \in {"isbn.to_isbn13", "isbn.format_convert", "isbn.validate_convert"} -> IF Len(v) = 13 THEN d = v
                                 ELSE Len(d) = 13 /\ Slice(d, 1, 3) = <<57, 55, 56>> /\ Slice(d, 4, 12) = Slice(v, 1, 9)
    [] row = "isbn.to_isbn10" -> IF Len(v) = 10 THEN d = v ELSE Len(d) = 10 /\ Slice(d, 1, 9) = Slice(v, 4, 12)
    [] row \in {"isan.add_check_digits", "isan.strip_check_digits"} ->
         /\ IsanCore(d) = IsanCore(v)
         /\ (row = "isan.add_check_digits" => Len(d) \in {17, 26})
         /\ (row = "isan.strip_check_digits" => Len(d) \in {16, 24})
    [] row = "ismn.to_ismn13" -> IF Len(v) = 13 THEN d = v ELSE d = <<57, 55, 57, 48>> \o Slice(v, 2, 10)
    [] row = "issn.to_ean" -> Len(d) = 13 /\ Slice(d, 1, 3) = <<57, 55, 55>> /\ Slice(d, 4, 10) = Slice(v, 1, 7) /\ Slice(d, 11, 12) = opt
    [] row = "cusip.to_isin" -> Len(d) = 12 /\ Slice(d, 1, 2) = <<85, 83>> /\ Slice(d, 3, 11) = v
    [] row = "gb.sedol.to_isin" -> Len(d) = 12 /\ Slice(d, 1, 2) = <<71, 66>> /\ Slice(d, 3, 11) = ZFill(v, 9)
    [] row = "de.wkn.to_isin" -> Len(d) = 12 /\ Slice(d, 1, 2) = <<68, 69>> /\ Slice(d, 3, 11) = ZFill(v, 9)
    [] row = "es.ccc.to_iban" -> Slice(d, 1, 2) = <<69, 83>> /\ Slice(d, 5, Len(d)) = v
    [] row = "es.iban.to_ccc" -> d = Slice(v, 5, Len(v))
    [] row = "no.kontonr.to_iban" -> Slice(d, 1, 2) = <<78, 79>> /\ Slice(d, 5, Len(d)) = ZFill(v, 11)
    [] row = "no.iban.to_kontonr" -> d = Slice(v, 5, Len(v))
    [] row = "au.acn.to_abn" -> Len(d) = 11 /\ Slice(d, 3, 11) = v
    [] row = "fr.siret.to_siren" -> d = Slice(v, 1, 9)
    [] row = "fr.siret.to_tva" -> Len(d) = 11 /\ Slice(d, 3, 11) = Slice(v, 1, 9)
    [] row = "fr.siren.to_tva" -> Len(d) = 11 /\ Slice(d, 3, 11) = v
    [] row = "pe.cui.to_ruc" -> Len(d) = 11 /\ Slice(d, 1, 2) = <<49, 48>> /\ Slice(d, 3, 10) = Slice(v, 1, 8)
    [] row = "pe.ruc.to_dni" -> d = Slice(v, 3, 10)
    [] row = "in_.gstin.to_pan" -> d = Slice(v, 3, 12)
    [] row = "ie.vat.convert" -> IF Len(v) = 8 /\ ~IsDigitCp(v[2])
                                 THEN d = <<48>> \o Slice(v, 3, 7) \o <<v[1]>> \o Slice(v, 8, 8)
                                 ELSE d = v
    [] row = "it.aic.to_base32" -> TRUE      \* identity is established by the inverse (K3)
    [] row = "it.aic.from_base32" -> TRUE
    [] row = "de.stnr.to_country_number" -> Len(d) = 13
    [] row = "de.stnr.to_regional_number" -> TRUE
    [] row \in {"meid.format_hex", "meid.format_dec", "meid.compact_keep"} ->      \* d = the validated result, check digit kept; opt = "1" when the source had one
         /\ Len(d) = (IF row = "meid.format_dec" \/ opt = <<49>> THEN 15 ELSE 14)     \* (validate() always completes the decimal form)
         /\ Slice(d, 1, 14) = v
    [] row = "mac.to_eui48" -> LowerAscii(Delete(d, {58, 45})) = LowerAscii(Delete(v, {58, 45}))
    [] OTHER -> TRUE

K0(e) == IsStrRet(e.w) \/ (e.row \in MayRefuse /\ (IsVE(e.w) \/ (e.w.k = "ret" /\ e.w.t = "NoneType")))
K1(e) == (IsStrRet(e.w) /\ e.row \notin NoTarget) => IsStrRet(e.dv)
K2(e) == (IsStrRet(e.w) /\ IsStrRet(e.dv)) => Embeds(e.row, e.v, e.dv.v, e.opt)
K3(e) == (IsStrRet(e.w) /\ e.hasinv) => (IsStrRet(e.inv) /\ e.inv.v = e.invwant)
K4(e, dv0) == (dv0.k # "none" /\ IsStrRet(dv0)) => (IsStrRet(e.dv) /\ e.dv.v = dv0.v)
=============================================================================
