--------------------------- MODULE MC_ChecksumPA ---------------------------
EXTENDS MC_Checksum
VARIABLES q1, q2, phase, h1, h2
INSTANCE ChecksumPA WITH Aut <- AutDef
=============================================================================
