--------------------------- MODULE Trace_Checksum ---------------------------
(* Conformance of the implementation's checksum code to the automaton that was *)
(* extracted from it (and on which the C06 properties were model checked):     *)
(* TLC folds delta over each recorded string and compares with what the code   *)
(* returned (state, validity, generated check characters).                     *)
EXTENDS MC_Checksum, SequencesExt
Aut == AutDef
D(q, c) == Aut.delta[q + 1][c + 1]
AccSet == {Aut.acc[i] : i \in 1..Len(Aut.acc)}
CheckSyms == {Aut.check[i] : i \in 1..Len(Aut.check)}
Run(s) == FoldLeft(LAMBDA q, c : D(q, c), Aut.q0, IF Aut.dir = "r2l" THEN Reverse(s) ELSE s)
Acc(s) == Len(s) >= 1 /\ Run(s) \in AccSet

Trace == ndJsonDeserialize(IOEnv.TRACE_FILE)
VARIABLES l, nrej

X1(e) == e.chk = Run(e.s)
X2(e) == e.valid = Acc(e.s)
X3(e) == IF Aut.ncheck = 1
         THEN Len(e.gen) = 1 /\ \A c \in CheckSyms : Acc(Append(e.s, c)) <=> (c = e.gen[1])
         ELSE Len(e.gen) = 2 /\ Acc(e.s \o e.gen)
ClauseNames == <<"X1", "X2", "X3">>
Clauses(e) == [X1 |-> X1(e), X2 |-> X2(e), X3 |-> X3(e)]
Failing(e) == LET c == Clauses(e) IN SelectSeq(ClauseNames, LAMBDA n : ~c[n])

Init == l = 1 /\ nrej = 0
Step == /\ l <= Len(Trace)
        /\ LET e == Trace[l]  bad == Failing(e)
           IN IF bad = <<>> THEN nrej' = nrej
              ELSE nrej' = nrej + 1 /\ PrintT(<<"REJ", e.tid, l, bad>>)
        /\ l' = l + 1
Spec == Init /\ [][Step]_<<l, nrej>>
Accepted == /\ TLCGet("stats").diameter - 1 = Len(Trace)
            /\ PrintT(<<"DONE", Len(Trace), TLCGet("stats").diameter - 1>>)
=============================================================================
