import sys, os, re, json, subprocess, importlib, unicodedata
sys.path.insert(0,'/verif/harness')
TB='/tmp/tb'
mods=sys.argv[1].split(',')
src_mut={}
def mutate(src):
    m = re.search(r'isdigits\((number(?:\[[^\]]*\])?)\)', src)
    return src[:m.start()] + m.group(1) + '.isdigit()' + src[m.end():]
probe = r'''
import sys, json, unicodedata
sys.path.insert(0, %r)
sys.path.insert(1, '/verif/harness')
import os
os.environ['STDNUM_REPO']=%r
from vlib import lib
from stdnum.exceptions import ValidationError
name=%r
mod=lib.module(name)
corp=lib.corpus(name, mod)
chars=['²','¹','⁰','٣','۳','①','⁶','\U0001d7d8','３','१','፩', '⒈']
bad=[]
vals=[]
for x in corp:
    try:
        v=mod.validate(x)
        if isinstance(v,str): vals.append(x); vals.append(v)
    except Exception: pass
seen=set()
for v in dict.fromkeys(vals):
    for i,c in enumerate(v):
        if not c.isdigit(): continue
        for ch in chars:
            for y in (v[:i]+ch+v[i+1:],):
                if y in seen: continue
                seen.add(y)
                try:
                    r=mod.validate(y)
                    if isinstance(r,str) and not r.isascii(): bad.append(('nonascii',y,r))
                except ValidationError: pass
                except Exception as e: bad.append(('exc',y,type(e).__name__))
    for ch0 in (0x660,0x6f0,0x966,0xff10,0x1d7ce):
        y=''.join(chr(ch0+int(c)) if c.isdigit() else c for c in v)
        try:
            r=mod.validate(y)
            if isinstance(r,str) and not r.isascii(): bad.append(('nonascii',y,r))
        except ValidationError: pass
        except Exception as e: bad.append(('exc',y,type(e).__name__))
    y=''.join('²' if c.isdigit() else c for c in v)
    try:
        r=mod.validate(y)
        if isinstance(r,str) and not r.isascii(): bad.append(('nonascii',y,r))
    except ValidationError: pass
    except Exception as e: bad.append(('exc',y,type(e).__name__))
print(json.dumps([len(seen), bad[:3]]))
'''
for name in mods:
    path=os.path.join(TB,'stdnum',name.replace('.','/')+'.py')
    subprocess.run('git -C %s checkout -q -- .' % TB, shell=True)
    src=open(path).read()
    open(path,'w').write(mutate(src))
    p=subprocess.run(['/venv/bin/python','-c',probe % (TB, TB, name)],stdout=subprocess.PIPE,stderr=subprocess.PIPE)
    print(name, p.stdout.decode().strip()[:300] or p.stderr.decode()[-300:])
subprocess.run('git -C %s checkout -q -- .' % TB, shell=True)
