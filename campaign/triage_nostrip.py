import sys, os, re, json, subprocess
TB='/tmp/tb'
def mutate(src):
    m = re.search(r'def compact\(number\):.*?\n\n\n', src, re.S)
    body = m.group(0).replace('.strip()', '', 1)
    return src[:m.start()] + body + src[m.end():]
probe = r'''
import sys, json
sys.path.insert(0, %r)
sys.path.insert(1, '/verif/harness')
import os
os.environ['STDNUM_REPO']=%r
from vlib import lib
from stdnum.exceptions import ValidationError
name=%r
mod=lib.module(name)
corp=lib.corpus(name, mod)
ws=[' ','\n','\t','\r','\x0b','\x0c','\x1c','\x1d','\x1e','\x1f','\x85',' ',' ','\xa0','　',' ','​']
bad=[]; n=0
vals=[]
for x in corp:
    try:
        v=mod.validate(x)
        if isinstance(v,str): vals.append(x); vals.append(v)
    except Exception: pass
for v in list(dict.fromkeys(vals))[:40]:
    for w in ws:
        for y in (v+w, w+v, w+v+w, v+w+w, v[:1]+w+v[1:], v[:-1]+w+v[-1:]):
            n+=1
            try:
                r=mod.validate(y)
                if isinstance(r,str):
                    if r!=r.strip() : bad.append(('ws-in-output',y,r))
                    else:
                        try:
                            r2=mod.validate(r)
                            if r2!=r: bad.append(('not-fixed-point',y,r,r2))
                        except ValidationError as e: bad.append(('revalidation-rejected',y,r))
            except ValidationError: pass
            except Exception as e: bad.append(('exc',y,type(e).__name__))
print(json.dumps([n, bad[:2]]))
'''
mods=[json.loads(l) for f in ('/tmp/mutc/nostrip.0.jsonl','/tmp/mutc/nostrip.1.jsonl') for l in open(f)]
mods=[d['m'] for d in mods if d['status']=='survived tests' and not d['detected']]
for name in mods:
    path=os.path.join(TB,'stdnum',name.replace('.','/')+'.py')
    subprocess.run('git -C %s checkout -q -- .' % TB, shell=True)
    src=open(path).read()
    open(path,'w').write(mutate(src))
    p=subprocess.run(['/venv/bin/python','-c',probe % (TB, TB, name)],stdout=subprocess.PIPE,stderr=subprocess.PIPE)
    out=p.stdout.decode().strip()
    try:
        n,bad=json.loads(out)
        if bad: print(name, n, bad)
    except Exception:
        print(name, 'PROBE FAILED', p.stderr.decode()[-200:])
subprocess.run('git -C %s checkout -q -- .' % TB, shell=True)
print('done', len(mods))
