"""Deterministic demonstration of the first-use race in stdnum.util.get_cc_module() (property C13).

usage: /venv/bin/python import_race_demo.py [<tree>]      (default tree /repo)

Thread t1 calls eu.vat.validate('XI980780684') first.  Its import of stdnum.gb.vat is stopped (sys.settrace) in
importlib._bootstrap._find_and_load_unlocked() AFTER the module has been executed (so it is no longer marked as
initialising) but BEFORE `setattr(parent_module, 'vat', module)`.  Thread t2 then makes the same call: importlib hands it
the finished module without waiting, get_cc_module() does getattr(stdnum.gb, 'vat', None) -> None, eu.vat caches None for
'gb' and raises InvalidComponent -- and keeps doing so for every later call in the process.
Prints BROKEN and exits 1 when that happens, OK and exits 0 otherwise."""
import sys, threading
tree = sys.argv[1] if len(sys.argv) > 1 else '/repo'
sys.path.insert(0, tree)
from stdnum.eu import vat            # noqa: E402

gate_reached = threading.Event()
gate_open = threading.Event()


def local(frame, event, arg):
    if event == 'line' and threading.current_thread().name == 't1' and not gate_reached.is_set():
        # the line `setattr(parent_module, child, module)` is the only one in that function mentioning setattr
        import linecache
        co = frame.f_code
        if frame.f_locals.get('name') == 'stdnum.gb.vat' and 'module' in frame.f_locals and frame.f_locals.get('parent') \
                and getattr(frame.f_locals.get('module'), '__name__', '') == 'stdnum.gb.vat' \
                and not getattr(frame.f_locals['module'].__spec__, '_initializing', False):
            gate_reached.set()
            gate_open.wait(10)
    return local


def tracer(frame, event, arg):
    if event == 'call' and frame.f_code.co_name == '_find_and_load_unlocked':
        return local
    return None


results = {}


def call(name):
    if name == 't1':
        sys.settrace(tracer)
    try:
        results[name] = vat.validate('XI980780684')
    except Exception as e:
        results[name] = 'EXC ' + type(e).__name__
    finally:
        sys.settrace(None)


t1 = threading.Thread(target=call, args=('t1',), name='t1')
t1.start()
if not gate_reached.wait(10):
    print('the import of stdnum.gb.vat was not intercepted (interpreter differs): nothing shown')
    gate_open.set()
    t1.join()
    sys.exit(0)
t2 = threading.Thread(target=call, args=('t2',), name='t2')
t2.start()
t2.join(10)
gate_open.set()
t1.join()
t2.join()
try:
    later = vat.validate('XI980780684')
except Exception as e:
    later = 'EXC ' + type(e).__name__
if results.get('t2') != 'XI980780684' or later != 'XI980780684':
    print('BROKEN t1=%r t2=%r later call=%r' % (results.get('t1'), results.get('t2'), later))
    sys.exit(1)
print('OK t1=%r t2=%r later call=%r' % (results.get('t1'), results.get('t2'), later))
