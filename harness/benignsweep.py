"""Applies every behaviour-preserving change under benign/ to the repository under test ($STDNUM_REPO), runs the quick checks
that look at the touched area and expects exit 0 from each (no false alarm); writes benign/RESULTS.json.
    vp run --with-repo -- sh -c 'STDNUM_REPO=$VP_RUN_REPO /venv/bin/python harness/benignsweep.py'"""
import json, os, re, subprocess, sys, time
HERE = os.path.dirname(os.path.dirname(os.path.abspath(__file__)))
REPO = os.environ.get('STDNUM_REPO', '/repo')
CHECKS = {'A': ['C01', 'C02', 'C03', 'C09', 'C10', 'C11', 'C13', 'C14', 'C15', 'C18'],
          'B': ['C01', 'C05', 'C06', 'C07', 'C15', 'C17'],
          'C': ['C02', 'C04', 'C05', 'C08', 'C11', 'C12', 'C16', 'C18'],
          'D': ['C01', 'C09', 'C10', 'C11', 'C12', 'C13', 'C14', 'C18'],
          'E': ['C01', 'C05', 'C06', 'C07', 'C09', 'C15', 'C17'],
          'F': ['C02', 'C03', 'C04', 'C08', 'C12', 'C14', 'C16'],
          'G': ['C01', 'C04', 'C07', 'C10', 'C11', 'C12', 'C13', 'C16'],
          'H': ['C01', 'C02', 'C03', 'C04', 'C05', 'C06', 'C07', 'C08', 'C09', 'C12', 'C17'],
          'I': ['C01', 'C05', 'C06', 'C07', 'C08', 'C14', 'C15', 'C17']}


def main():
    os.chdir(HERE)
    only = sys.argv[1:]
    out = {}
    for d in sorted(os.listdir('benign')):
        if not re.match(r'^[A-I]-\d$', d) or (only and d not in only):
            continue
        patch = os.path.join(HERE, 'benign', d, 'patch.diff')
        for chk in CHECKS[d[0]]:
            if os.environ.get('BENIGN_CHECKS') and chk not in os.environ['BENIGN_CHECKS'].split():
                continue
            if subprocess.call(['git', '-C', REPO, 'apply', patch]) != 0:
                out['%s/%s' % (d, chk)] = {'error': 'patch does not apply'}
                break
            try:
                p = subprocess.run(['./check', chk, '--tier', 'quick'], stdout=subprocess.PIPE, stderr=subprocess.STDOUT,
                                   env=dict(os.environ, STDNUM_REPO=REPO), timeout=3600)
                text = p.stdout.decode('utf-8', 'replace')
            finally:
                subprocess.call(['git', '-C', REPO, 'checkout', '--', '.'])
            viol = [ln for ln in text.splitlines() if ln.startswith('VIOLATION') or ln.startswith('MACHINERY')]
            out['%s/%s' % (d, chk)] = {'exit': p.returncode, 'alarms': [v[:300] for v in viol[:5]]}
            print(d, chk, 'exit', p.returncode, viol[:2], flush=True)
    path = os.path.join(HERE, 'benign', 'RESULTS.json')
    old = {}
    if (only or os.environ.get('BENIGN_CHECKS')) and os.path.exists(path):
        old = json.load(open(path))
    old.update(out)
    with open(path, 'w') as fh:
        json.dump(old, fh, indent=1, sort_keys=True)


main()
