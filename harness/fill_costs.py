"""Fills the @Cxx@ placeholders of DESIGN.md section 11 from evidence/*.json (events, wall seconds of the last run)."""
import json, os, re
HERE = os.path.dirname(os.path.dirname(os.path.abspath(__file__)))
p = os.path.join(HERE, 'DESIGN.md')
s = open(p).read()
for i in range(1, 19):
    cid = 'C%02d' % i
    try:
        d = json.load(open(os.path.join(HERE, 'evidence', cid + '.json')))
    except Exception:
        continue
    cov = d.get('coverage', {})
    ev = cov.get('evaluations', 0)
    txt = '%s events, %d k states, %d s' % (('%.2f M' % (ev / 1e6)) if ev >= 1e6 else ('%d k' % (ev // 1000)) if ev >= 1000 else str(ev),
                                          cov.get('states', 0) // 1000, round(d.get('wall_s', 0)))
    s = re.sub(r'@%s@|(?<=\| )[0-9.]+ ?[Mk]? events, \d+ k states, \d+ s(?= \|\n\| (?:C%02d|\n))' % (cid, i + 1), txt, s) if ('@%s@' % cid) in s else s
open(p, 'w').write(s)
