"""Fills the cost cells of DESIGN.md section 11 from evidence/*.json (events, states, wall seconds of the last run of each check);
re-runnable: the cells are delimited by <!--Cxx--> ... <!--/Cxx--> markers."""
import json, os, re
HERE = os.path.dirname(os.path.dirname(os.path.abspath(__file__)))
p = os.path.join(HERE, 'DESIGN.md')
s = open(p).read()
for i in range(1, 19):
    cid = 'C%02d' % i
    try:
        d = json.load(open(os.path.join(HERE, 'evidence', cid + '.json')))
    except Exception:
        continue
    cov = d.get('coverage', {})
    ev = cov.get('evaluations', 0)
    txt = '%s events, %d k states, %d s' % (('%.2f M' % (ev / 1e6)) if ev >= 1e6 else ('%d k' % (ev // 1000)) if ev >= 1000 else str(ev),
                                          cov.get('states', 0) // 1000, round(d.get('wall_s', 0)))
    cell = '<!--%s-->%s<!--/%s-->' % (cid, txt, cid)
    s = s.replace('@%s@' % cid, cell)
    s = re.sub(r'<!--%s-->.*?<!--/%s-->' % (cid, cid), cell, s)
open(p, 'w').write(s)
