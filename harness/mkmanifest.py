"""Writes MANIFEST.json from the table below (kept in one place so it is always valid)."""
import json, os
HERE = os.path.dirname(os.path.dirname(os.path.abspath(__file__)))
CHECKS = {
 'C01': dict(text='TLC generates the abstract inputs (edit scripts of Inputs.tla: every op x position x ~55 character classes, depth 2 by simulation); a driver applies them to corpus numbers of all 234 modules (+ non-string values, long inputs, options, clocks) and records validate/is_valid; TLC validates every recorded session against the contract machine Api.tla (clauses V1 V2 V3). Bounded-exhaustive at the abstract level, sampled at the concrete level.',
             note='Trusted: TLC, CPython, the recorder (harness/vlib/lib.py call()). Coverage of the string space is by abstract enumeration x concretisation, not proof.',
             tech='TLA+ contract state machine (Api.tla) + TLC trace validation of recorded sessions; TLC-generated inputs (Inputs.tla)', ref='DESIGN.md §4 C01'),
 'C02': dict(text='Session validate(x,o); validate(result,o) recorded for every accepted presentation (corpus spellings, whitespace, case, TLC-generated separator/look-alike/duplication decorations at every position, module string constants substituted for words) under every option; TLC validates clauses F1 (exact fixed point) and F2 (no edge whitespace, on code points) of Api.tla.',
             note='Trusted: TLC, CPython, recorder. Inputs are bounded-exhaustive abstract scripts x corpus; not a proof over all strings.',
             tech='TLA+ session machine (Api.tla) + TLC trace validation; TLC-generated decorations', ref='DESIGN.md §4 C02'),
 'C03': dict(text='Session validate(x,o); compact(x); compact(y); validate(y,o) with y a TLC-generated decoration of a valid number / near-miss / garbage x; TLC evaluates D1: equal compact forms imply equal outcomes (exclusions are constants of the spec).',
             note='Antecedent is the observed equality of compact(); the spec predicts nothing about which characters are stripped.',
             tech='TLA+ session machine (Api.tla) + TLC trace validation of compact-equal pairs', ref='DESIGN.md §4 C03'),
 'C04': dict(text='Session validate(x); format(x,o); validate(format(x,o)); format(validate(x),o) for accepted presentations and documented format options; TLC evaluates G0/G1/G2 with the documented normalisations (ISMN, ISAN, ISIL, MEID, isbn convert, imei add_check_digit) written out in ApiFormat.tla.',
             note='Alternative separators are used only when the module\'s own compact() is observed to remove them.',
             tech='TLA+ session machine (Api.tla, ApiFormat.tla) + TLC trace validation', ref='DESIGN.md §4 C04'),
 'C05': dict(text='(A) TLC model-checks on the automaton EXTRACTED from each generic algorithm that from every reachable state exactly one check character is accepted (any length), and validates by trace that it is the one the generator returns; (C) for every bound (module, generator) pair TLC validates p1 (generator reproduces the check slice of valid numbers), p2 (every other character of the check alphabet at every check position is rejected, on corpus + synthesised valid numbers) and p3 (payload + generated characters is never rejected by the format\'s own checksum); the positional conventions are constants of Trace_CheckDigit.tla and committed bindings.',
             note='Bindings (bindings/checkdigit.json) were created once from the unchanged tree and reviewed; unbound generators are listed in the evidence, never counted as passing.',
             tech='TLC model checking of extracted check-digit automata (ChecksumPA.tla) + TLC trace validation (Trace_CheckDigit.tla, Trace_Checksum.tla)', ref='DESIGN.md §4 C05'),
 'C06': dict(text='Each algorithm is a finite automaton (Checksums.tla). TLC exhaustively model-checks the product automaton (two copies, one substitution or one adjacent swap; ChecksumPA.tla, ChecksumGenR2L.tla): reachability covers strings of EVERY length. Done for the mathematical definitions and for the automaton EXTRACTED from the implementation (every state x symbol asked from the real checksum()), for every alphabet; negative instances must be refuted; TLC-simulated strings are replayed into checksum/is_valid/calc_check_digit and validated against the extracted automaton (Trace_Checksum.tla).',
             note='The unbounded claim is about the extracted automaton; that the code is that automaton is shown by conformance on sampled strings (X1-X3).',
             tech='TLC exhaustive model checking of product automata over extracted transition tables + trace validation', ref='DESIGN.md §4 C06'),
 'C16': dict(text='MC_GS1.tla model-checks the encode/decode round trip on an abstract identifier table (fixed, variable, int and decimal identifiers, all mappings of <= 3 identifiers, separator on/off): it holds under the canonical-value conditions and the implementation\'s zero-padding of variable-length decimals is REFUTED as a design. On the real table (gs1_ai.dat, parsed independently) the driver builds mappings of 1-5 identifiers with canonical values of the declared formats (every identifier alone in 3 length classes + random combinations) in every separator/parentheses mode; TLC compares the code\'s encode() with the specification\'s encoder GS1.tla (E1) and judges RT1 info(encode(m)) = m, RT2 info(validate(x)) = info(x), RT3 validate(validate(x)) = validate(x); value fitness is re-checked by the spec (M1).',
             note='The spec encoder covers str/int/decimal/N6-date values; rarer date-time shapes get the black-box clauses RT1-RT3 only.',
             tech='TLC model checking of the abstract round trip (MC_GS1.tla) + TLA+ encoder (GS1.tla) evaluated by TLC in trace validation', ref='DESIGN.md §4 C16'),
 'C17': dict(text='MC: product automata of the generic algorithms (standard and extracted from the code) and positional weighted-sum automata for ISBN-10/ISSN/EAN (Weighted.tla) prove single-substitution / adjacent-swap detection for all numbers; TRACE: exhaustive neighbourhood (every position x every same-class character, every adjacent pair of different digits) of corpus + synthesised valid numbers of the 30 bound modules recorded from the code; TLC checks that each edit is one the property talks about and that it was rejected (Trace_Typo.tla).',
             note='Module list and exclusions (with reasons) in bindings/single_error.json.',
             tech='TLC model checking of product automata + TLC trace validation of exhaustive neighbourhoods', ref='DESIGN.md §4 C17'),
 'C07': dict(text='Formats.tla / Bitcoin.tla transcribe the 19 formats from their standards (canonical form + accept predicate over code points; SHA-256 for Base58Check is itself specified in TLA+, Sha256.tla; ISO 3166 tables and IBAN structures are data taken from the repository). The driver records validate(x) for corpus numbers, every single-character replacement at every position over 0-9A-Z, deletions, insertions, swaps, hostile ASCII, padding/case variants, random strings at and around the format lengths, constructed Base58Check/Bech32 addresses for every witness version, program length and padding edge case, and block digests of the complete ISSN / IMO / EAN-8 payload spaces; TLC recomputes A1 accepted iff Accept(Canon(x)), A2 returned value = Canon(x), B1 every check character of every block.',
             note='Agreement is with my TLA+ reading of each standard (BIP 173 for Bech32; IBAN compared with check_country=False, the national layer is C09); inputs are ASCII.',
             tech='TLA+ transcriptions of the standards (Formats.tla, Bitcoin.tla, Sha256.tla) evaluated by TLC in trace validation', ref='DESIGN.md §4 C07'),
 'C08': dict(text='Convert.tla holds the conversion table (25 rows) with a positional embedding relation per row. For valid source numbers (corpus + synthesised) in compact, space- and hyphen-separated presentations and under the options (issue codes, regions) the driver records the conversion, the TARGET validator\'s verdict on the result and the inverse conversion; TLC judges K0 (converts, or refuses where documented), K1 (valid in the target format), K2 (embeds the same identity), K3 (inverse undoes it), K4 (independent of separators; session state).',
             note='Embedding relations were read off the functions\' docstrings; targets without a validator in the library are listed in the spec (NoTarget).',
             tech='TLA+ conversion table with per-row relations (Convert.tla) + TLC trace validation', ref='DESIGN.md §4 C08'),
 'C09': dict(text='Dispatch.tla states each (wrapper, constituent) relation of the property: EU VAT iff the member state\'s validator accepts the projection (recomputed by the spec) with prefix re-attachment, VATIN superset with equal result, ordered unions (us.tin, be.ssn, th.tin, ro.cf) with guess_type, es.nif superset, IBAN = generic and national, guess_country set equality, get_cc_module alias resolution. The driver records wrapper and constituent outcomes on valid constituent numbers of every member state / sub-type (plus numbers synthesised for every admitted length), edits, prefix/case variants and foreign numbers under each prefix, in a process whose dispatch caches are warm; TLC judges. MC stage: the dispatch mechanism of Runtime.tla and its hazard variant.',
             note='Inputs are ASCII so that the projection is self-contained in the spec.',
             tech='TLA+ wrapper/constituent relations (Dispatch.tla) + TLC trace validation; TLC model checking of the dispatch mechanism', ref='DESIGN.md §4 C09'),
 'C10': dict(text='NumDB.tla defines the lookup declaratively (shortest matching length wins, properties of all matches of that length merged in file order, children searched in the rest, unmatched rest one property-less part). TLC (1) model-checks Lossless/ShortestWins/MergeAll/UnmatchedIsOnePart on all small registries (bounded-exhaustive), (2) generates larger well-formed registries that the driver writes out as file text for the real numdb.read(), (3) re-evaluates every recorded lookup (generated registries and the 17 shipped registries, parsed independently) and compares (clauses L1 L2 L3).',
             note='Well-formedness is part of the generator; the independent parser/serialiser (harness/vlib/ndb.py) is trusted.',
             tech='TLC bounded-exhaustive model checking of the declarative lookup + TLC-generated registries replayed into numdb + trace validation of recorded lookups', ref='DESIGN.md §4 C10'),
 'C11': dict(text='Exhaustive over the finite data: one event per non-comment line of the 17 registry files (raw text + what numdb\'s parser made of it), re-read by TLC with the line grammar of NumDBFile.tla (R1 understood completely, R2 well-formed, R2n consistent nesting as session state); one reach event per entry (R3; sampled to 4000 per file in quick); consumer witnesses built BY THE SPEC (Gen_Witness.tla: an IBAN per country structure with Mod 97-10 check digits, an ISBN-13 per publisher range with EAN check digit) plus GS1 element strings and postal codes, replayed into iban/isbn/gs1_128/at.postleitzahl (W1 W2).',
             note='Not every consumer has a witness builder yet (banks, locations, tax offices are covered by R3 through numdb only).',
             tech='TLC trace validation with a TLA+ line grammar; TLC-generated consumer witnesses replayed into the code', ref='DESIGN.md §4 C11'),
 'C12': dict(text='Sessions per (module, valid number): every getter the web application would discover, on the canonical number and other presentations, under several system dates; valid numbers are corpus + synthesised neighbours + numbers synthesised for chosen dates (leap days in/out of leap years, century boundaries, day/month 00, unknown registry prefixes). TLC judges T1 (documented kind or ValidationError), T2 (real Gregorian date that agrees with the digits under the national layouts, month/day offsets and century rules written out in BirthDates.tla for 22 formats), T3 (year/month getters agree), T5 (split concatenates to the canonical number). Presentation dependence of getters (T6) is recorded as an observation only.',
             note='Formats without a layout row (se.personnummer, it.codicefiscale) get T1/T3 only.',
             tech='TLA+ calendar and national birth-date layouts (BirthDates.tla) + TLC trace validation', ref='DESIGN.md §4 C12'),
 'C13': dict(text='Runtime.tla models one Python process: the numdb cache and the country-module caches with their check/parse/store/use steps, threads, I/O faults, and the dict objects handed to callers. TLC checks PureResults/KeyInjective/CacheMonotone for all interleavings of the code\'s model (2 threads quick, 3 threads thorough) and must REFUTE five hazard variants (publish before fill, basename key, aliased property dicts, cache before membership test, publish-before-fill + fault). TLC-generated call histories (with in-place mutation of every returned container), 16-thread barrier-released first-use rounds and all 70 two-thread hook-level schedules (replayed with a blocking scheduler in the hooks) are executed in fresh interpreters; TLC validates every result against the same call in a pristine interpreter (H1) and every hook event against the cache steps of the spec (A1-A4).',
             note='Hooks: STDNUM_VERIF-guarded, add-only lines at the cache linearization points. Assumes the CPython GIL/import lock; races outside hooked regions are seen only when the stress hits them.',
             tech='TLC model checking of interleavings (Runtime.tla, hazard variants refuted) + TLC-generated histories/schedules replayed + trace validation of hook events and results', ref='DESIGN.md §4 C13'),
 'C14': dict(text='The clean-up map is observed for all 1,114,112 code points (coverage is session state of the trace spec) with the Unicode facts of each character; TLC constrains it (U1 digit only from decimal value, U2 space only from Zs, U3 ASCII alphanumerics fixed, U4 no letters produced, U5 targets are ASCII fixed points), checks every entry of the library\'s declared table alone and in context (T1), validates clean() on TLC-generated class strings x delete sets against the transducer Clean.tla built from the observed map (U6-U9) and the look-alike spellings of valid numbers of every module end to end (U10).',
             note='Unicode facts come from unicodedata (trusted environment).',
             tech='TLC trace validation against a TLA+ transducer (Clean.tla), exhaustive over code points', ref='DESIGN.md §4 C14'),
 'C18': dict(text='Wsgi.tla: the application as a request/response machine with its template cache. TLC generates request sequences (4 requests over 17 query classes x html/ajax); each sequence is served by online_check/stdnum.wsgi in a fresh interpreter, every corpus number of every module and every valid number that still carries markup is submitted in both modes; TLC validates each response: Q1 status 200, Q2 content type, Q3/Q4 the formats listed are exactly (as a multiset) those whose is_valid() accepts the number, computed over an independently enumerated module list, Q5 raw marker absent / escaped marker present in the body (searched on code points), Q6 equal to the same request served first by a fresh interpreter, T0 template loaded exactly once.',
             note='urllib.parse.parse_qs, json and html.escape are trusted environment.',
             tech='TLA+ request/response machine (Wsgi.tla) + TLC-generated request sequences + TLC trace validation', ref='DESIGN.md §4 C18'),
 'C15': dict(text='TLC enumerates (op, position, foreign character class); the driver puts a same-valued foreign digit / look-alike letter at every position of corpus numbers of every module (all Nd/No/Nl code points outside the clean-up table in thorough), plus case-mapping specials over the whole corpus; TLC evaluates S1 (returned value is ASCII) on every accepted session; exclusions are constants of the spec.',
             note='Acceptance itself is not judged, only pass-through of non-ASCII characters.',
             tech='TLA+ contract clause S1 (Api.tla) + TLC trace validation; TLC-generated foreign-character edits', ref='DESIGN.md §4 C15'),
}
def main():
    checks = []
    for pid in sorted(CHECKS):
        c = CHECKS[pid]
        checks.append({
            'property_id': pid,
            'quick_cmd': './check %s --tier quick' % pid,
            'thorough_cmd': './check %s --tier thorough' % pid,
            'evidence_file': '/verif/evidence/%s.json' % pid,
            'replay_cmd_template': './check %s --replay {path}' % pid,
            'engine': 'tlc',
            'level_claimed': {'category': c.get('cat', 'model_checking'), 'text': c['text'], 'design_ref': c['ref']},
            'level_note': c['note'],
            'technique': c['tech'],
        })
    na = [{'property_id': 'C%02d' % i, 'reason': 'check not built yet in this snapshot (work in progress; see DESIGN.md §6 build order)'}
          for i in range(1, 19) if 'C%02d' % i not in CHECKS]
    m = {
        'version': 1,
        'setup_cmd': './setup.sh',
        'hooks': {'guard': 'STDNUM_VERIF', 'enable': 'export STDNUM_VERIF=1 with /verif/harness on PYTHONPATH (module stdnum_verif_hooks); set by the C13 check for the interpreters it starts',
                  'baseline_off_cmd': 'cd /repo && /venv/bin/python -m pytest -ra -q -p no:cacheprovider --timeout=900 --continue-on-collection-errors',
                  'source_commits': ['145e5b0'], 'add_only': True},
        'engines': [{'name': 'tlc', 'path': '/opt/veriftools/tla/tla2tools.jar', 'serves_properties': sorted(CHECKS),
                     'kind_free_text': 'TLC 1.8 explicit-state model checker: exhaustive MC of spec instances, behaviour generation, trace validation'}],
        'checks': checks,
        'not_applicable': na,
        'notes': 'Specification in /verif/spec (TLA+); harness in /verif/harness (Python, records only; every verdict is TLC\'s). ./check <id> [--tier quick|thorough].',
    }
    with open(os.path.join(HERE, 'MANIFEST.json'), 'w') as fh:
        json.dump(m, fh, indent=1)
if __name__ == '__main__':
    main()
