"""Writes MANIFEST.json from the table below (kept in one place so it is always valid)."""
import json, os
HERE = os.path.dirname(os.path.dirname(os.path.abspath(__file__)))
CHECKS = {
 'C01': dict(text='TLC generates the abstract inputs (edit scripts of Inputs.tla: every op x position x ~55 character classes, depth 2 by simulation); a driver applies them to corpus numbers of all 234 modules (+ non-string values, long inputs, options, clocks) and records validate/is_valid; TLC validates every recorded session against the contract machine Api.tla (clauses V1 V2 V3). Bounded-exhaustive at the abstract level, sampled at the concrete level.',
             note='Trusted: TLC, CPython, the recorder (harness/vlib/lib.py call()). Coverage of the string space is by abstract enumeration x concretisation, not proof.',
             tech='TLA+ contract state machine (Api.tla) + TLC trace validation of recorded sessions; TLC-generated inputs (Inputs.tla)', ref='DESIGN.md §4 C01'),
}
def main():
    checks = []
    for pid in sorted(CHECKS):
        c = CHECKS[pid]
        checks.append({
            'property_id': pid,
            'quick_cmd': './check %s --tier quick' % pid,
            'thorough_cmd': './check %s --tier thorough' % pid,
            'evidence_file': '/verif/evidence/%s.json' % pid,
            'replay_cmd_template': './check %s --replay {path}' % pid,
            'engine': 'tlc',
            'level_claimed': {'category': c.get('cat', 'model_checking'), 'text': c['text'], 'design_ref': c['ref']},
            'level_note': c['note'],
            'technique': c['tech'],
        })
    na = [{'property_id': 'C%02d' % i, 'reason': 'check not built yet in this snapshot (work in progress; see DESIGN.md §6 build order)'}
          for i in range(1, 19) if 'C%02d' % i not in CHECKS]
    m = {
        'version': 1,
        'setup_cmd': './setup.sh',
        'hooks': {'guard': 'STDNUM_VERIF', 'enable': 'export STDNUM_VERIF=1 (set by the checks that need hooks; none committed yet)',
                  'baseline_off_cmd': 'cd /repo && /venv/bin/python -m pytest -ra -q -p no:cacheprovider --timeout=900 --continue-on-collection-errors',
                  'source_commits': [], 'add_only': True},
        'engines': [{'name': 'tlc', 'path': '/opt/veriftools/tla/tla2tools.jar', 'serves_properties': sorted(CHECKS),
                     'kind_free_text': 'TLC 1.8 explicit-state model checker: exhaustive MC of spec instances, behaviour generation, trace validation'}],
        'checks': checks,
        'not_applicable': na,
        'notes': 'Specification in /verif/spec (TLA+); harness in /verif/harness (Python, records only; every verdict is TLC\'s). ./check <id> [--tier quick|thorough].',
    }
    with open(os.path.join(HERE, 'MANIFEST.json'), 'w') as fh:
        json.dump(m, fh, indent=1)
if __name__ == '__main__':
    main()
