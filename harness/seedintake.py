"""Takes the output directories of seeded-change sub-agents (<out>/Cxx-k/{patch.diff,demo.py,notes.md}), verifies each
change in a scratch clone of /repo (patch applies, test suite passes, demo says OK without and BROKEN with the patch)
and files the verified ones as /verif/seeded/Cxx-<next>/ with a meta.json.  usage: seedintake.py <round> <outdir>..."""
import json, os, re, shutil, subprocess, sys
HERE = os.path.dirname(os.path.dirname(os.path.abspath(__file__)))
WT = '/tmp/wtv'


def sh(cmd, **kw):
    return subprocess.run(cmd, shell=True, stdout=subprocess.PIPE, stderr=subprocess.STDOUT, **kw)


def main():
    rnd = int(sys.argv[1])
    shutil.rmtree(WT, ignore_errors=True)
    assert sh('git clone -q /repo %s' % WT).returncode == 0
    try:
        for out in sys.argv[2:]:
            for d in sorted(os.listdir(out)):
                if not re.match(r'^C\d\d-\d+$', d):
                    continue
                src = os.path.join(out, d)
                prop = d.split('-')[0]
                patch = os.path.join(src, 'patch.diff')
                demo = os.path.join(src, 'demo.py')
                if not (os.path.exists(patch) and os.path.exists(demo)):
                    print(d, 'INCOMPLETE'); continue
                clean = sh('/venv/bin/python %s %s' % (demo, WT), timeout=600)
                if sh('git -C %s apply %s' % (WT, patch)).returncode != 0:
                    print(src, 'PATCH DOES NOT APPLY'); continue
                try:
                    broken = sh('/venv/bin/python %s %s' % (demo, WT), timeout=600)
                    tests = sh('cd %s && /venv/bin/python -m pytest -q -p no:cacheprovider 2>&1 | tail -5' % WT, timeout=1800)
                finally:
                    sh('git -C %s checkout -- . && git -C %s clean -fdq' % (WT, WT))
                ttxt = tests.stdout.decode('utf-8', 'replace')
                m = re.search(r'(\d+) passed', ttxt)
                failed = re.search(r'(\d+) failed', ttxt)
                ok = clean.returncode == 0 and broken.returncode == 1 and m and not failed
                print(src, 'clean rc', clean.returncode, 'patched rc', broken.returncode, 'tests', m.group(0) if m else '?',
                      failed.group(0) if failed else '', 'OK' if ok else 'REJECTED', flush=True)
                if not ok:
                    continue
                k = 1
                while os.path.exists(os.path.join(HERE, 'seeded', '%s-%d' % (prop, k))):
                    k += 1
                dst = os.path.join(HERE, 'seeded', '%s-%d' % (prop, k))
                os.makedirs(dst)
                for f in ('patch.diff', 'demo.py', 'notes.md'):
                    if os.path.exists(os.path.join(src, f)):
                        shutil.copy(os.path.join(src, f), dst)
                notes = open(os.path.join(src, 'notes.md')).read() if os.path.exists(os.path.join(src, 'notes.md')) else ''
                meta = {'property': prop, 'written_for': prop, 'round': rnd,
                        'source': 'independent sub-agent (round %d, on the tree with fixes and hooks) given only the property text and a scratch clone' % rnd,
                        'needs_to_manifest': ' '.join(notes.split())[:900], 'adapted': False,
                        'verified': {'how': 'scratch clone of /repo HEAD under /tmp/wtv: git apply patch.diff; full test suite; demo.py with and without the patch',
                                     'tests_with_patch': m.group(0), 'demo_with_patch_exit': 1, 'demo_without_patch_exit': 0},
                        'checks_run': 'see DESIGN.md section 14 and seeded/RESULTS.json'}
                with open(os.path.join(dst, 'meta.json'), 'w') as fh:
                    json.dump(meta, fh, indent=1)
                print('  ->', dst)
    finally:
        shutil.rmtree(WT, ignore_errors=True)


main()
