"""C11 -- every shipped registry entry is well-formed and usable by its consumer.
TRACE (exhaustive over the finite data): one 'line' event per non-comment line of the 17 registry files
(raw text + what numdb's own parser made of it; TLC re-reads the line with the grammar of NumDBFile.tla:
clauses R1 R2 R2n), one 'reach' event per entry (lookup of its low end through its ancestors: R3), and
consumer witnesses: IBAN numbers and ISBN-13s built by the spec (Gen_Witness.tla), GS1 element strings,
registry keys given to the consumers' info() functions (W1 W2)."""
import io, json, os, random, decimal, datetime
from vlib import lib, run, tlc, ndb
from props.c10 import registries, obs_of

PROP = 'C11'


def numdb_lines(path):
    """What stdnum.numdb's own parser makes of every non-comment line: (indent, ranges, props)."""
    from stdnum import numdb
    out = []
    with open(path, encoding='utf-8') as fh:
        for line in fh:
            if line[0] == '#' or line.strip() == '':
                continue
            got = list(numdb._parse(io.StringIO(line)))
            out.append((line.rstrip('\n'), got))
    return out


def file_worker(unit, emit):
    name, path, p = unit
    lib.load_stdnum()
    from stdnum import numdb
    rnd = random.Random('%s/%s' % (p['seed'], name))
    with open(path, encoding='utf-8') as fh:
        text = fh.read()
    tree, lines = ndb.parse_text(text)
    db = numdb.get(name)
    # ---- line events, in file order (one micro-trace per file: indentation is session state)
    evs = []
    metas = []
    for raw, got in numdb_lines(path):
        indent = got[0][0] if got else -1
        ranges = [[lib.cps(g[2]), lib.cps(g[3])] for g in got]
        props = sorted([[lib.cps(k), lib.cps(v)] for k, v in (got[0][4].items() if got else [])])
        evs.append({'kind': 'line', 'file': name, 'text': lib.cps(raw), 'indent': indent, 'ranges': ranges, 'props': props})
    # emitted as separate micro-traces (tid per line) but consecutive, so the trace spec sees file order
    for i, e in enumerate(evs):
        emit.trace([e], {'m': 'numdb:' + name, 'w': ''.join(chr(c) for c in e['text'])[:200], 'how': 'line %d' % (i + 1)})
        emit.count('lines')
    # ---- reach events: every entry
    nent = [0]

    def count(level):
        for e in level:
            nent[0] += 1
            count(e['kids'])
    count(tree)
    keep = 1.0 if nent[0] <= p['cap'] else float(p['cap']) / nent[0]

    def walk(level, prefix, depth):
        for e in level:
            lo = ''.join(chr(c) for c in e['low'])
            q = prefix + lo
            if keep < 1.0 and rnd.random() > keep:
                emit.count('entries_not_sampled')
                if e['kids']:
                    walk(e['kids'], q, depth + 1)
                continue
            r = lib.call(db.info, q)
            obs = obs_of(db.info(q)) if r['k'] == 'ret' else []
            obs2 = [[part, [[lib.cps(k), lib.cps(v)] for k, v in props]] for part, props in obs]
            emit.trace([{'kind': 'reach', 'file': name, 'depth': depth, 'low': e['low'],
                         'props': [[lib.cps(k), lib.cps(v)] for k, v in dedupe(e['props'])], 'obs': obs2}],
                       {'m': 'numdb:' + name, 'w': q, 'how': 'reach depth %d' % depth})
            emit.count('entries')
            if e['kids']:
                walk(e['kids'], q, depth + 1)
    walk(tree, '', 1)


def dedupe(props):
    d = {}
    for k, v in props:
        d[k] = v
    return sorted(d.items())


def canon_pairs(d):
    return sorted([[lib.cps(str(k)), lib.cps(str(v))] for k, v in d.items()])


def consumer_worker(unit, emit):
    kind, items = unit
    lib.load_stdnum()
    import importlib
    for it in items:
        if kind == 'IBAN':
            from stdnum import iban
            w = lib.from_cps(it['w'])
            r = lib.call(iban.validate, w, check_country=False)
            got = lib.cps('accepted') if (r['k'] == 'ret' and r['t'] == 'str' and lib.from_cps(r['v']) == w) else lib.cps(r['cls'] or 'changed')
            emit.trace([{'kind': 'w_eq', 'file': 'iban', 'got': got, 'want': lib.cps('accepted')}],
                       {'m': 'iban', 'w': w, 'how': 'IBAN witness for ' + lib.from_cps(it['cc']), 'site': r['site']})
        elif kind == 'IBANBAD':
            emit.trace([{'kind': 'w_eq', 'file': 'iban', 'got': lib.cps('structure not understood: ' + lib.from_cps(it['w'])), 'want': lib.cps('accepted')}],
                       {'m': 'iban', 'w': lib.from_cps(it['w']), 'how': 'IBAN structure of ' + lib.from_cps(it['cc']), 'site': ''})
        elif kind == 'ISBN':
            from stdnum import isbn
            w = lib.from_cps(it['w'])
            r = lib.call(isbn.split, w)
            parts = [lib.cps(x) for x in json.loads(r['j'])['tuple']] if r['k'] == 'ret' and r['t'] == 'tuple' else []
            emit.trace([{'kind': 'w_isbn', 'file': 'isbn', 'got': parts, 'w': it['w']}],
                       {'m': 'isbn', 'w': w, 'how': 'ISBN witness in range ' + '-'.join(lib.from_cps(x) for x in it['path']), 'site': r['site']})
        elif kind == 'GS1':
            from stdnum import gs1_128
            ai, value = it
            r1 = lib.call(gs1_128.encode, {ai: value})
            got = 'encode:' + r1['cls']
            if r1['k'] == 'ret':
                enc = lib.from_cps(r1['v'])
                r2 = lib.call(gs1_128.info, enc)
                got = r2['j'] if r2['k'] == 'ret' else 'info:' + r2['cls']
            want = json.dumps(lib.canon({ai: value}), sort_keys=True, ensure_ascii=True)
            emit.trace([{'kind': 'w_eq', 'file': 'gs1_ai', 'got': lib.cps(got), 'want': lib.cps(want)}],
                       {'m': 'gs1_128', 'w': '%s=%r' % (ai, value), 'how': 'GS1 AI round trip', 'site': r1['site']})
        elif kind == 'KEY':
            modname, fn, number, props, how = it[:5]
            rel = it[5] if len(it) > 5 else 'w_eq'
            mod = importlib.import_module('stdnum.' + modname)
            r = lib.call(getattr(mod, fn), number)
            if r['k'] == 'ret' and r['t'] == 'str':
                emit.trace([{'kind': 'w_eq', 'file': modname, 'got': lib.cps(lib.from_cps(r['v'])), 'want': lib.cps(props)}],
                           {'m': modname, 'w': number, 'how': how, 'site': ''})
            elif r['k'] == 'ret' and r['t'] == 'dict':
                d = dict((k, v) for k, v in json.loads(r['j'])['dict'])
                got = sorted([[lib.cps(str(k)), lib.cps(str(v))] for k, v in d.items()])
                want = sorted([[lib.cps(k), lib.cps(v)] for k, v in props])
                # the consumer may add nothing and drop nothing of the entry
                emit.trace([{'kind': rel, 'file': modname, 'got': got, 'want': want}],
                           {'m': modname, 'w': number, 'how': how, 'site': ''})
            else:
                got = lib.cps(r['cls'] or r['t'])
                emit.trace([{'kind': 'w_eq', 'file': modname, 'got': got, 'want': lib.cps('dict')}],
                           {'m': modname, 'w': number, 'how': how, 'site': r['site']})
        emit.count('witnesses')


def gs1_values(tree):
    """A value of the declared format for every application identifier."""
    import re
    out = []
    for e in tree:
        ai = ''.join(chr(c) for c in e['low'])
        hi = ''.join(chr(c) for c in e['high'])
        props = dict(e['props'])
        fmt, typ = props.get('format', ''), props.get('type', 'str')
        ais = [ai] if ai == hi else [ai, hi]
        for a in ais:
            if typ == 'date':
                if fmt == 'N10':
                    v = datetime.datetime(2021, 11, 19, 12, 45)
                elif fmt in ('N6..12', 'N6[+N6]'):
                    v = (datetime.date(2021, 11, 19), datetime.date(2022, 1, 31))
                elif fmt.startswith('N8'):
                    v = datetime.datetime(2021, 11, 19, 12, 45, 13)
                elif fmt in ('N6+N..4', 'N6[+N..4]', 'N6[+N4]'):
                    v = datetime.datetime(2021, 11, 19, 12, 45)
                else:
                    v = datetime.date(2021, 11, 19)
            elif typ == 'decimal':
                if fmt.startswith('N3+'):
                    v = ('978', decimal.Decimal('123.45'))
                else:
                    n = int(re.findall(r'(\d+)$', fmt)[0])
                    v = decimal.Decimal('123.45') if n >= 6 else decimal.Decimal('1.5')
            elif typ == 'int':
                v = 12
            else:
                m = re.findall(r'([NXYZ])(\.\.)?(\d+)', fmt)
                if a in ('01', '02'):
                    v = '98412345678908'
                elif a == '8007':
                    v = 'NL91ABNA0417164300'
                else:
                    v = ''.join(('1234567890' * 10)[:int(n)] if c == 'N' else ('AB1CD2EF3G' * 10)[:int(n)] for c, dots, n in m) or '1'
            out.append((a, v))
    return out


def main():
    chk = run.Check(PROP)
    lib.load_stdnum()
    regs = registries()
    p = {'seed': chk.seed, 'cap': 4000 if chk.tier == 'quick' else 10 ** 9}
    shards = chk.drive([(n, pth, p) for n, pth in regs], file_worker, shuffle=False)
    extra = run.merge_extra(shards)
    rej = chk.validate('Trace_Registry', shards, own_clauses={'R1', 'R2', 'R2n', 'R3', 'W1', 'W2'}, heap='3g')
    chk.report(rej)
    # ---- witnesses built by the spec
    trees = {}
    for n, pth in regs:
        with open(pth, encoding='utf-8') as fh:
            trees[n] = ndb.parse_text(fh.read())[0]
    for e in trees['iban']:
        e['bbancp'] = lib.cps(dict(e['props']).get('bban', ''))
    dbfile = os.path.join(chk.work, 'witness_db.json')
    with open(dbfile, 'w') as fh:
        json.dump({'dbs': [trees['iban'], trees['isbn']]}, fh)
    rw = tlc.run('Gen_Witness', workdir=chk.work, workers=1, env={'DB_FILE': dbfile}, heap='4g')
    wits = {'IBAN': [], 'ISBN': [], 'IBANBAD': []}
    for ln in rw.prints:
        v = tlc.parse_value(ln)
        if v and v[0] == 'WIT':
            wits[v[1]['kind']].append(v[1])
    if len(wits['IBAN']) + len(wits['IBANBAD']) < len(trees['iban']) or len(wits['ISBN']) < 100:
        raise run.MachineryError('witness generator produced %d IBAN / %d ISBN witnesses\n%s' % (len(wits['IBAN']), len(wits['ISBN']), rw.out[-2000:]))
    chk.cov['stages'].append({'stage': 'GEN', 'spec': 'Gen_Witness', 'iban_witnesses': len(wits['IBAN']), 'isbn_witnesses': len(wits['ISBN'])})
    units = [('IBAN', wits['IBAN']), ('IBANBAD', wits['IBANBAD']), ('GS1', gs1_values(trees['gs1_ai']))]
    isbns = wits['ISBN']
    for i in range(8):
        units.append(('ISBN', isbns[i::8]))
    # registry keys handed to the consumers' info() functions
    keys = []
    for e in trees['at/postleitzahl'][::1]:
        keys.append(('at.postleitzahl', 'info', lib.from_cps(e['low']), dedupe(e['props']), 'at/postleitzahl entry'))
    def lo(e):
        return lib.from_cps(e['low'])
    for e in trees['at/fa']:
        keys.append(('at.tin', 'info', lo(e) + '0000000', dedupe(e['props']), 'at/fa entry'))
    seen_ein = {}
    for e in trees['us/ein']:
        seen_ein[lo(e)] = dict(e['props']).get('campus', '')          # later lines override earlier ones (a known finding for 46)
    for k, campus in sorted(seen_ein.items()):
        keys.append(('us.ein', 'get_campus', k + '0000000', campus, 'us/ein entry'))
    for e in trees['my/bp']:
        keys.append(('my.nric', 'get_birth_place', '000101' + lo(e) + '0000', dedupe(e['props']), 'my/bp entry', 'w_sub'))
    for e in trees['cn/loc'][::7 if chk.tier == 'quick' else 1]:
        keys.append(('cn.ric', 'get_birth_place', lo(e) + '199001010010', dedupe(e['props']), 'cn/loc entry', 'w_sub'))
    for e in trees['cz/banks']:
        keys.append(('cz.bankaccount', 'info', '19-2000145399/' + lo(e), dedupe(e['props']), 'cz/banks entry', 'w_sub'))
    for e in trees['nz/banks']:
        for k in e['kids'][::9 if chk.tier == 'quick' else 1]:
            keys.append(('nz.bankaccount', 'info', lo(e) + lo(k) + '000000000', dedupe(e['props'] + k['props']), 'nz/banks branch', 'w_sub'))

    def nace(level, prefix, props):
        for e in level:
            if not lo(e)[0].isdigit():
                continue
            pr = props + e['props']
            keys.append(('eu.nace', 'info', prefix + lo(e), dedupe(pr), 'eu/nace entry', 'w_eq'))
            nace(e['kids'], prefix + lo(e), pr)
    nace(trees['eu/nace'], '', [])
    for e in trees['isil']:
        keys.append(('isil', 'validate', lo(e).rstrip('$') + '-1', lo(e).rstrip('$') + '-1', 'isil agency prefix'))
    for e in trees['imsi'][::3 if chk.tier == 'quick' else 1]:
        for k in e['kids'][:2 if chk.tier == 'quick' else 99]:
            if len(lo(k)) in (2, 3):
                keys.append(('imsi', 'info', lo(e) + lo(k) + '0000000000'[:15 - len(lo(e) + lo(k))], dedupe(e['props'] + k['props']), 'imsi network', 'w_sub'))
    for i in range(0, len(keys), 600):
        units.append(('KEY', keys[i:i + 600]))
    sh = chk.drive(units, consumer_worker, shuffle=False)
    extra2 = run.merge_extra(sh)
    rej = chk.validate('Trace_Registry', sh, own_clauses={'R1', 'R2', 'R2n', 'R3', 'W1', 'W2'})
    chk.report(rej)
    from props.c02 import first_meta
    return chk.finish(samples=first_meta(shards) + first_meta(sh), distinct_nontrivial=extra.get('lines', 0) + extra.get('entries', 0) + extra2.get('witnesses', 0),
                      exhaustive=(extra.get('entries_not_sampled', 0) == 0),
                      rule='every non-comment line of the 17 registry files (line events), every entry (reach events), one or two '
                           'consumer witnesses per IBAN structure / ISBN publisher range / GS1 application identifier / postal code',
                      extra={'lines': extra.get('lines', 0), 'entries': extra.get('entries', 0), 'entries_not_sampled': extra.get('entries_not_sampled', 0), 'witnesses': extra2.get('witnesses', 0),
                             'registries': [n for n, _ in regs]})


if __name__ == '__main__':
    run.main(main, PROP)
