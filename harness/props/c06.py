"""C06 -- generic checksum algorithms give their guarantees at any length.

Stage MC-STD  TLC model-checks the product automaton (ChecksumPA.tla / ChecksumGenR2L.tla) of each
              algorithm as defined mathematically in Checksums.tla (+ negative instances that must
              be refuted).
Stage EXTRACT the transition table of the implementation is measured: BFS over (checksum value,
              length mod period) states, asking the real checksum() for every state x symbol.
Stage MC-EXT  TLC model-checks the same invariants on the extracted automaton: unbounded in string
              length.  A counter-example is two concrete strings, confirmed against the code.
Stage CONF    TLC-simulated strings are replayed into checksum / is_valid / calc_check_digit(s); TLC
              validates the recorded results against the extracted automaton (Trace_Checksum.tla),
              i.e. that the code *is* that automaton."""
import json, os, random, re, sys
from vlib import lib, run, tlc

PROP = 'C06'
ALNUM = '0123456789ABCDEFGHIJKLMNOPQRSTUVWXYZ'
ALPHA40 = ALNUM + 'abcd'


def instances(tier):
    lib.load_stdnum()
    from stdnum import luhn, verhoeff, damm
    from stdnum.iso7064 import mod_11_2, mod_11_10, mod_37_2, mod_37_36, mod_97_10
    out = []
    ns = [10, 16, 36] if tier == 'quick' else list(range(2, 41, 2))
    for n in ns:
        a = ALPHA40[:n]
        out.append(dict(name='luhn%d' % n, mod=luhn, alphabet=a, dir='r2l', period=2, kw={'alphabet': a},
                        ncheck=1, check=a, luhn=True, swap=False, swapok=a, gen='calc_check_digit'))
    d = '0123456789'
    out.append(dict(name='verhoeff', mod=verhoeff, alphabet=d, dir='r2l', period=8, kw={}, ncheck=1, check=d,
                    luhn=False, swap=True, swapok=d, gen='calc_check_digit'))
    out.append(dict(name='damm', mod=damm, alphabet=d, dir='l2r', period=1, kw={}, ncheck=1, check=d,
                    luhn=False, swap=True, swapok=d, gen='calc_check_digit'))
    # the custom table the module documents (an option of every function of the module)
    alt = ((0, 2, 3, 4, 5, 6, 7, 8, 9, 1), (2, 0, 4, 1, 7, 9, 5, 3, 8, 6), (3, 7, 0, 5, 2, 8, 1, 6, 4, 9), (4, 1, 8, 0, 6, 3, 9, 2, 7, 5),
           (5, 6, 2, 9, 0, 7, 4, 1, 3, 8), (6, 9, 7, 3, 1, 0, 8, 5, 2, 4), (7, 5, 1, 8, 4, 2, 0, 9, 6, 3), (8, 4, 6, 2, 9, 5, 3, 0, 1, 7),
           (9, 8, 5, 7, 3, 1, 6, 4, 0, 2), (1, 3, 9, 6, 8, 4, 2, 7, 5, 0))
    out.append(dict(name='damm_documented_table', mod=damm, alphabet=d, dir='l2r', period=1, kw={'table': alt}, ncheck=1, check=d,
                    luhn=False, swap=True, swapok=d, gen='calc_check_digit'))
    out.append(dict(name='mod_11_2', mod=mod_11_2, alphabet=d + 'X', dir='l2r', period=1, kw={}, ncheck=1, check=d + 'X',
                    luhn=False, swap=True, swapok=d + 'X', gen='calc_check_digit', special='X'))
    out.append(dict(name='mod_37_2', mod=mod_37_2, alphabet=ALNUM + '*', dir='l2r', period=1, kw={}, ncheck=1,
                    check=ALNUM + '*', luhn=False, swap=True, swapok=ALNUM + '*', gen='calc_check_digit', special='*'))
    out.append(dict(name='mod_11_10', mod=mod_11_10, alphabet=d, dir='l2r', period=1, kw={}, ncheck=1, check=d,
                    luhn=False, swap=False, swapok=d, gen='calc_check_digit'))
    out.append(dict(name='mod_37_36', mod=mod_37_36, alphabet=ALNUM, dir='l2r', period=1, kw={}, ncheck=1, check=ALNUM,
                    luhn=False, swap=False, swapok=ALNUM, gen='calc_check_digit'))
    out.append(dict(name='mod_97_10', mod=mod_97_10, alphabet=ALNUM, dir='l2r', period=1, kw={}, ncheck=2, check=d,
                    luhn=False, swap=True, swapok=d, gen='calc_check_digits'))
    # two caller-supplied alphabets of the SAME size in one process (a lookup table cached under the wrong key would mix them up)
    out.append(dict(name='mod_37_2_0-9X', mod=mod_37_2, alphabet=d + 'X', dir='l2r', period=1, kw={'alphabet': d + 'X'},
                    ncheck=1, check=d + 'X', luhn=False, swap=True, swapok=d + 'X', gen='calc_check_digit', special='X'))
    out.append(dict(name='mod_37_2_X0-9', mod=mod_37_2, alphabet='X' + d, dir='l2r', period=1, kw={'alphabet': 'X' + d},
                    ncheck=1, check='X' + d, luhn=False, swap=True, swapok='X' + d, gen='calc_check_digit', special='9'))
    out.append(dict(name='mod_37_36_0-9', mod=mod_37_36, alphabet=d, dir='l2r', period=1, kw={'alphabet': d}, ncheck=1,
                    check=d, luhn=False, swap=False, swapok=d, gen='calc_check_digit'))
    out.append(dict(name='mod_37_36_9-0', mod=mod_37_36, alphabet=d[::-1], dir='l2r', period=1, kw={'alphabet': d[::-1]}, ncheck=1,
                    check=d[::-1], luhn=False, swap=False, swapok=d[::-1], gen='calc_check_digit'))
    out.append(dict(name='luhn10_9-0', mod=luhn, alphabet=d[::-1], dir='r2l', period=2, kw={'alphabet': d[::-1]},
                    ncheck=1, check=d[::-1], luhn=True, swap=False, swapok=d[::-1], gen='calc_check_digit'))
    if False:
        # other alphabets the modules document: 37-2 / 37-36 on digits-only and hex alphabets
        out.append(dict(name='mod_37_2_0-9X', mod=mod_37_2, alphabet=d + 'X', dir='l2r', period=1, kw={'alphabet': d + 'X'},
                        ncheck=1, check=d + 'X', luhn=False, swap=True, swapok=d + 'X', gen='calc_check_digit', special='X'))
        out.append(dict(name='mod_37_36_0-9', mod=mod_37_36, alphabet=d, dir='l2r', period=1, kw={'alphabet': d}, ncheck=1,
                        check=d, luhn=False, swap=False, swapok=d, gen='calc_check_digit'))
    return out


def kind_of(ch, inst):
    if ch == inst.get('special'):
        return 2
    return 0 if ch in '0123456789' else 1


class NotFinite(Exception):
    """checksum() is not a function of a bounded state: the values it returns over strings of growing length do not close"""


def extract(inst):
    """Measure the implementation's automaton.  States are (checksum value, len mod period) plus a
    distinct initial state; witnesses are kept so that every entry can be re-asked."""
    mod, kw, A = inst['mod'], inst['kw'], inst['alphabet']
    r2l = inst['dir'] == 'r2l'
    ids = {('init', 0): 0}
    wit = {0: ''}
    order = [('init', 0)]
    delta = {}
    i = 0
    while i < len(order):
        key = order[i]
        q = ids[key]
        w = wit[q]
        row = []
        for c in A:
            w2 = (c + w) if r2l else (w + c)
            try:
                val = mod.checksum(w2, **kw)
            except Exception as e:
                # not total on its own alphabet: a state of its own, so that the model and the conformance step (X1: the code
                # returns no state for this string) say so -- not a failure of the machinery
                val = 'raises ' + type(e).__name__
            k2 = (val, len(w2) % inst['period'])
            if k2 not in ids:
                ids[k2] = len(ids)
                wit[ids[k2]] = w2
                order.append(k2)
            row.append(ids[k2])
        delta[q] = row
        i += 1
        if len(ids) > 5000:
            raise NotFinite(inst['name'], wit[max(wit)])
    acc = []
    for key in order[1:]:
        q = ids[key]
        try:
            if mod.is_valid(wit[q], **kw) is True:
                acc.append(q)
        except Exception:
            pass
    aut = {'nq': len(ids), 'na': len(A), 'q0': 0, 'acc': acc,
           'delta': [delta[q] for q in range(len(ids))],
           'kind': [kind_of(c, inst) for c in A], 'swapok': [c in inst['swapok'] for c in A],
           'check': [A.index(c) for c in inst['check']], 'dir': inst['dir'], 'ncheck': inst['ncheck'],
           'luhn': inst['luhn'], 'swap': inst['swap']}
    return aut, ids, wit


def to_string(inst, syms):
    s = ''.join(inst['alphabet'][i] for i in syms)
    return s[::-1] if inst['dir'] == 'r2l' else s


_h_re = re.compile(r'/\\ (h1|h2|h) = <<([^>]*)>>')


def counterexample_strings(r, inst):
    """The strings of the last state of TLC's error trace."""
    found = {}
    for m in _h_re.finditer(r.counterexample or r.out):
        found[m.group(1)] = [int(x) for x in m.group(2).replace(' ', '').split(',') if x != '']
    return {k: to_string(inst, v) for k, v in found.items()}


def conformance(chk, inst, aut, ids, wit, apath, nsim):
    """TLC-simulated strings replayed into checksum / is_valid / calc_check_digit(s); TLC validates the
    recorded results against the extracted automaton (clauses X1 X2 X3)."""
    # conformance: TLC-simulated strings replayed into the code
    rs = tlc.run('ChecksumStrings', workdir=chk.work, workers=1, env={'AUTOMATON_FILE': apath, 'ALGO': ''},
                 simulate='num=%d' % nsim, depth=66, seed=chk.seed)
    strings = []
    seen = set()
    for ln in rs.prints:
        v = tlc.parse_value(ln)
        if v and v[0] == 'STR' and tuple(v[1]) not in seen:
            seen.add(tuple(v[1]))
            strings.append(v[1])
    if len(strings) < nsim:
        raise run.MachineryError('string generator for %s produced %d strings\n%s' % (inst['name'], len(strings), rs.out[-1500:]))
    # the witnesses of every state and the TLC counter-example classes are replayed as well
    extra = [[inst['alphabet'].index(c) for c in w] for w in wit.values() if w]
    if inst['luhn']:
        a = len(inst['alphabet'])
        for pre in ([], [1 % a], [3 % a, 4 % a], [0, 1 % a, 2 % a]):
            for post in ([], [5 % a], [1 % a, 0]):
                extra.append(pre + [0, a - 1] + post)
                extra.append(pre + [a - 1, 0] + post)
    # long strings (the any-length claim is about the automaton; that the code IS that fold must also be seen beyond the lengths
    # a table of precomputed rows or a wrong period would still cover)
    rl = random.Random('%s/long/%s' % (chk.seed, inst['name']))
    na = len(inst['alphabet']) - (1 if inst.get('special') else 0)
    for n in (36, 37, 38, 40, 41, 42, 64, 65, 66, 100, 129, 257):
        for _ in range(2):
            extra.append([rl.randrange(na) for _ in range(n)])
    events = []
    mod, kw = inst['mod'], inst['kw']
    A = inst['alphabet']
    for syms in strings + extra:
        s = ''.join(A[i] for i in syms)
        rc = lib.call(mod.checksum, s, **kw)
        if rc['k'] == 'ret':
            val = json.loads(rc['j'])['int']
            st = ids.get((int(val), len(s) % inst['period']), -1)
        else:
            st = -1
        rv = lib.call(mod.is_valid, s, **kw)
        rg = lib.call(getattr(mod, inst['gen']), s, **kw)
        gen = [A.index(c) if c in A else -1 for c in lib.from_cps(rg['v'])] if rg['k'] == 'ret' and rg['t'] == 'str' else []
        events.append({'s': syms, 'chk': st, 'valid': rv['b'] if rv['k'] == 'ret' and rv['t'] == 'bool' else False, 'gen': gen,
                       'str': s})
    epath = os.path.join(chk.work, 'conf_%s.ndjson' % inst['name'])
    ipath = os.path.join(chk.work, 'conf_%s.index' % inst['name'])
    with open(epath, 'w') as fh, open(ipath, 'w') as ih:
        for t, e in enumerate(events, 1):
            fh.write(json.dumps({'tid': t, 's': e['s'], 'chk': e['chk'], 'valid': e['valid'], 'gen': e['gen']}) + '\n')
            ih.write(json.dumps([t, {'m': inst['name'], 'w': e['str'], 'how': 'conformance', 'site': 'checksum/is_valid/' + inst['gen']}]) + '\n')
    shard = {'events': epath, 'index': ipath, 'n_events': len(events), 'n_traces': len(events)}
    rej = chk.validate('Trace_Checksum', [shard], env={'AUTOMATON_FILE': apath, 'ALGO': ''}, label='conformance ' + inst['name'])
    chk.report(rej)
    return events


def mc_extracted(chk, inst):
    """Extract the implementation's automaton and model-check the product automaton on it."""
    try:
        aut, ids, wit = extract(inst)
    except NotFinite as e:
        # the any-length claim is decided on a finite automaton; an implementation whose checksum values keep growing with the
        # length of the string (a forgotten reduction) has none -- that is the finding, not a failure of the machinery
        chk.violation('FiniteFold', module=inst['name'], site='extracted automaton', witness=e.args[1][:80],
                      detail={'what': 'checksum() returned more than 5000 distinct (value, length mod period) states: it is not the finite fold the algorithm defines'})
        return None, None, None, None
    apath = os.path.join(chk.work, 'aut_%s.json' % inst['name'])
    with open(apath, 'w') as fh:
        json.dump(aut, fh)
    for spec in (['MC_ChecksumPA'] + (['MC_ChecksumGenR2L'] if inst['dir'] == 'r2l' else [])):
        r = chk.mc(spec, env={'AUTOMATON_FILE': apath, 'ALGO': ''}, workers=8, label='extracted ' + inst['name'])
        if r.violated:
            strs = counterexample_strings(r, inst)
            conf = {}
            for k, s in strs.items():
                conf[k] = {'string': s, 'is_valid': lib.call(inst['mod'].is_valid, s, **inst['kw'])['b']}
            chk.violation(r.violated, module=inst['name'], site='extracted automaton',
                          witness=json.dumps(strs, sort_keys=True),
                          detail={'invariant': r.violated, 'strings': conf, 'trace': r.counterexample[:3000]})
    return aut, ids, wit, apath


def main():
    chk = run.Check(PROP)
    quick = chk.tier == 'quick'
    insts = instances(chk.tier)
    samples = []
    # ---- MC on the standard definitions + negative instances
    std = ['luhn10', 'luhn16', 'luhn36', 'verhoeff', 'damm', 'mod_11_2', 'mod_37_2', 'mod_11_10', 'mod_37_36', 'mod_97_10']
    if not quick:
        std = sorted(set(std + ['luhn%d' % n for n in range(2, 41, 2)]))
    for algo in std:
        r = chk.mc('MC_ChecksumPA', env={'ALGO': algo, 'AUTOMATON_FILE': ''}, workers=8, label='standard ' + algo)
        if r.violated:
            raise run.MachineryError('the standard definition of %s violates %s -- the specification is wrong\n%s'
                                     % (algo, r.violated, r.counterexample[:1500]))
        if algo.startswith('luhn') or algo == 'verhoeff':
            r = chk.mc('MC_ChecksumGenR2L', env={'ALGO': algo, 'AUTOMATON_FILE': ''}, workers=4, label='standard gen ' + algo)
            if r.violated:
                raise run.MachineryError('standard %s violates %s' % (algo, r.violated))
    chk.mc('MC_ChecksumPA', env={'ALGO': 'NEG_luhn_nodouble', 'AUTOMATON_FILE': ''}, workers=4,
           expect_violation='LuhnSwapOthersDetected', label='negative: Luhn without doubling')
    chk.mc('MC_ChecksumPA', env={'ALGO': 'NEG_pure_composite', 'AUTOMATON_FILE': ''}, workers=4,
           expect_violation='SubstDetected', label='negative: pure system with composite modulus')
    # ---- extraction, MC on the extracted automaton, conformance
    n_strings = 0
    for inst in insts:
        aut, ids, wit, apath = mc_extracted(chk, inst)
        if aut is None:
            continue
        events = conformance(chk, inst, aut, ids, wit, apath, 40 if quick else 600)
        n_strings += len(events)
        if len(samples) < 6:
            samples.append({'algorithm': inst['name'], 'extracted_states': aut['nq'], 'accepting': len(aut['acc']),
                            'conformance_string': events[5]['str'], 'generated': events[5]['gen']})
    chk.assumptions += ['the implementation is the fold that was extracted from it: shown for the sampled strings (clauses X1-X3), '
                        'assumed beyond; the unbounded-length claim is about the extracted automaton',
                        'same kind = digit<->digit, letter<->letter; the extra symbols X and * are covered by check-character uniqueness only']
    return chk.finish(samples=samples, distinct_nontrivial=n_strings, exhaustive=True,
                      rule='MC: all reachable states of the product automaton (every string of every length, one substitution or one adjacent '
                           'swap) for the standard and for the extracted automaton of every alphabet; conformance: TLC-simulated strings of '
                           'length 1..64 + the witness of every extracted state + Luhn first/last-symbol swap strings; all distinct',
                      extra={'algorithm_instances': [i['name'] for i in insts]})


if __name__ == '__main__':
    run.main(main, PROP)
