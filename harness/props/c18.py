"""C18 -- the online check application answers every query safely.
GEN: TLC generates request sequences over query classes (Gen_Requests.tla).  DRIVE: each sequence is
served by one fresh interpreter running online_check/stdnum.wsgi; corpus numbers of every module are
submitted in both modes.  TRACE: TLC validates every response against Wsgi.tla (Q1-Q6, T0)."""
import json, os, random, subprocess, urllib.parse, hashlib
from concurrent.futures import ThreadPoolExecutor
from vlib import lib, run, tlc, inputs

PROP = 'C18'
RUNNER = os.path.join(lib.VERIF, 'harness', 'c18_runner.py')
MARK = 'zqx7<b a="1" c=\'2\'>&amp;<script>'


def run_runner(reqs, timeout=600):
    env = dict(os.environ)
    env.update({'PYTHONPATH': os.path.join(lib.VERIF, 'harness') + ':' + lib.REPO, 'PYTHONHASHSEED': '0', 'PYTHONDONTWRITEBYTECODE': '1'})
    env.pop('STDNUM_VERIF', None)
    p = subprocess.run(['/venv/bin/python', RUNNER], input=json.dumps({'requests': reqs}).encode(), stdout=subprocess.PIPE,
                       stderr=subprocess.PIPE, env=env, timeout=timeout)
    if p.returncode != 0:
        raise run.MachineryError('wsgi runner failed: %s' % p.stderr.decode()[-1500:])
    return json.loads(p.stdout.decode())


def q(number):
    return 'number=' + urllib.parse.quote(number, safe='', errors='surrogatepass')


def concretise(cls, rnd, pool):
    """query class -> (query string, marker or '')"""
    v = rnd.choice(pool)
    if cls == 'absent':
        return '', ''
    if cls == 'empty':
        return 'number=', ''
    if cls == 'repeated':
        return q(v) + '&' + q(rnd.choice(pool)), ''
    if cls == 'other_only':
        return 'q=1&numbr=' + urllib.parse.quote(v), ''
    if cls == 'bad_utf8':
        return 'number=%ff%fe' + urllib.parse.quote(v) + '%c3', ''
    if cls == 'plus':
        return 'number=' + v.replace(' ', '+') + '+', ''
    if cls == 'nul':
        return 'number=%00' + urllib.parse.quote(v) + '%00', ''
    if cls == 'newline':
        i = rnd.randrange(len(v) + 1)
        return q(v[:i] + '\n' + v[i:]), ''
    if cls == 'long':
        return q((v * 2000)[:rnd.choice([4301, 9000, 60000])]), ''
    if cls == 'markup':
        return q(MARK), MARK
    if cls == 'markup_valid':
        i = rnd.randrange(len(v) + 1)
        return q(v[:i] + MARK + v[i:]), MARK
    if cls == 'valid':
        return q(v), ''
    if cls == 'near_valid':
        i = rnd.randrange(len(v))
        return q(v[:i] + rnd.choice('0123456789AZ') + v[i + 1:]), ''
    if cls == 'foreign_digits':
        return q(''.join(chr(0x660 + int(c)) if c.isdigit() and rnd.random() < 0.3 else c for c in v)), ''
    if cls == 'semicolon':
        return 'a=1;' + q(v) + ';b=2', ''
    if cls == 'encoded_amp':
        return 'number=' + urllib.parse.quote(v + '&number=x'), ''
    if cls == 'many_fields':
        # a realistic long query: the number among campaign / tracking parameters (limits on the number of fields show here)
        n = rnd.choice([9, 12, 33, 101, 1001])
        extra = ['utm_%d=x%d' % (i, i) for i in range(n)]
        k = rnd.randrange(len(extra) + 1)
        return '&'.join(extra[:k] + [q(v)] + extra[k:]), ''
    if cls == 'many_separators':
        return '&' * rnd.choice([9, 40, 1500]) + q(v) + '&' * rnd.choice([1, 9, 700]) + '=&=&', ''
    if cls == 'many_numbers':
        return '&'.join(q(rnd.choice(pool)) for _ in range(rnd.choice([9, 20, 150]))), ''
    if cls == 'unicode':
        return q(v + rnd.choice(['K', '\xdf', '\U0001f600', 'İ', ' '])), ''
    raise KeyError(cls)


def main():
    chk = run.Check(PROP)
    quick = chk.tier == 'quick'
    rnd = random.Random(chk.seed)
    lib.load_stdnum()
    nseq = 60 if quick else 1200
    rg = tlc.run('Gen_Requests', workdir=chk.work, workers=1, simulate='num=%d' % nseq, depth=5, seed=chk.seed)
    seqs = []
    for ln in rg.prints:
        v = tlc.parse_value(ln)
        if v and v[0] == 'REQS':
            seqs.append(v[1])
    if len(seqs) < nseq:
        raise run.MachineryError('request generator produced %d sequences\n%s' % (len(seqs), rg.out[-1500:]))
    # pool of valid numbers: every module's corpus
    per_mod = {}
    for name, mod in lib.modules():
        c = lib.corpus(name, mod)
        if c:
            per_mod[name] = lib.pick(c, 3 if quick else 40, rnd)
    pool = [x for v in per_mod.values() for x in v]
    jobs = []      # (requests, meta)
    for s in seqs:
        reqs = []
        for step in s:
            qs, marker = concretise(step['q'], rnd, pool)
            reqs.append({'qs': qs, 'ajax': bool(step['ajax']), 'marker': marker, 'cls': step['q'], 'fresh': True})
        jobs.append(reqs)
    # valid numbers that still carry markup: searched for by inserting a letter-free marker at every position
    M2 = '<"\'&>'
    found = []
    for name, mod in lib.modules():
        for base in per_mod.get(name, [])[:2]:
            for i in range(len(base) + 1):
                x = base[:i] + M2 + base[i:]
                try:
                    ok = mod.is_valid(x) is True
                except Exception:
                    ok = False
                if ok:
                    found.append((name, x))
                    break
    reqs = [{'qs': q(x), 'ajax': aj, 'marker': M2, 'cls': 'markup_in_valid:' + name, 'fresh': False} for name, x in found for aj in (False, True)]
    for i in range(0, len(reqs), 40):
        jobs.append(reqs[i:i + 40])
    chk.cov['markup_carrying_valid_numbers'] = [x for _, x in found][:20]
    # numeral floods: n copies of one character that some str predicate takes for a digit (isdigit / isdecimal / isnumeric
    # disagree on these), every length 1..20 -- the inputs on which a validator that swapped isdigits() for a str method
    # raises from is_valid(), which the application does not guard
    floods = []
    for ch in ('\u00b2', '\u0663', '\u2460', '\u4e00', '\u00bd', '\u216b', '\uff15', '\U0001d7d7'):
        for n in (range(1, 21) if quick else range(1, 41)):
            floods.append({'qs': q(ch * n), 'ajax': bool(n % 2), 'marker': '', 'cls': 'flood:U+%04X' % ord(ch), 'fresh': False})
    for i in range(0, len(floods), 40):
        jobs.append(floods[i:i + 40])
    # every corpus number of every module, both modes, in batches (drives format/compact/to_*/get_* of every module)
    flat = []
    for name in sorted(per_mod):
        for x in per_mod[name]:
            for ajax in (False, True):
                flat.append({'qs': q(x), 'ajax': ajax, 'marker': '', 'cls': 'corpus:' + name, 'fresh': False})
    # ... and the first number of every module with a blank in front and a line feed behind: the listing must be about the text as
    # submitted (the modules that do not strip -- the generic algorithms -- then say no)
    for name in sorted(per_mod):
        x = per_mod[name][0]
        flat.append({'qs': q(' ' + x), 'ajax': True, 'marker': '', 'cls': 'padded:' + name, 'fresh': False})
        flat.append({'qs': q(x + '\n'), 'ajax': False, 'marker': '', 'cls': 'padded:' + name, 'fresh': False})
    for i in range(0, len(flat), 40):
        jobs.append(flat[i:i + 40])
    with ThreadPoolExecutor(max_workers=16) as ex:
        outs = list(ex.map(run_runner, jobs))
    # fresh oracle for Q6: the same request as first request of a fresh process
    first = {}
    need = {}
    for reqs, out in zip(jobs, outs):
        k = json.dumps([reqs[0]['qs'], reqs[0]['ajax']])
        first.setdefault(k, out[0]['h'])
        for r in reqs[1:]:
            if r['fresh']:
                need.setdefault(json.dumps([r['qs'], r['ajax']]), None)
    todo = [k for k in need if k not in first]
    with ThreadPoolExecutor(max_workers=16) as ex:
        fo = list(ex.map(lambda k: run_runner([{'qs': json.loads(k)[0], 'ajax': json.loads(k)[1]}]), todo))
    for k, o in zip(todo, fo):
        first[k] = o[0]['h']
    evs, idx = [], []
    for pi, (reqs, out) in enumerate(zip(jobs, outs), 1):
        for ri, (r, o) in enumerate(zip(reqs, out)):
            k = json.dumps([r['qs'], r['ajax']])
            marker = r['marker']
            evs.append({'proc': pi, 'ajax': r['ajax'], 'status': o['status'], 'ctype': o['ctype'], 'parsed': o['parsed'],
                        'listed': o['listed'], 'valid': o['valid'], 'marker': lib.cps(marker),
                        'escaped': lib.cps(__import__('html').escape(marker, True)) if marker else [],
                        'body': lib.cps(o['body']) if marker else [], 'h': o['h'],
                        'hfresh': first.get(k, '') if (r['fresh'] and ri > 0) else '', 'tmpl_loaded_before': o['tmpl_loaded_before']})
            idx.append({'m': 'online_check', 'w': r['qs'][:300], 'how': '%s %s request %d of process %d' % (r['cls'], 'ajax' if r['ajax'] else 'html', ri + 1, pi),
                        'site': o['exc'].split(' ')[0] if o['exc'] else '', 'exc': o['exc'], 'status': o['status'], 'valid': o['valid'][:8], 'listed': o['listed'][:8]})
    nsh = 8
    shards = []
    for s in range(nsh):
        ep, ip = os.path.join(chk.work, 'w%d.ndjson' % s), os.path.join(chk.work, 'w%d.index' % s)
        lo, hi = s * len(jobs) // nsh, (s + 1) * len(jobs) // nsh
        n = 0
        with open(ep, 'w') as fh, open(ip, 'w') as ih:
            for e, m in zip(evs, idx):
                if lo < e['proc'] <= hi:
                    n += 1
                    fh.write(json.dumps(dict(e, tid=n)) + '\n')
                    ih.write(json.dumps([n, m]) + '\n')
        shards.append({'events': ep, 'index': ip, 'n_events': n, 'n_traces': n})
    rej = chk.validate('Trace_Wsgi', shards)
    chk.report(rej)
    return chk.finish(samples=[idx[0], idx[len(idx) // 2], idx[-1]], distinct_nontrivial=len(evs),
                      rule='requests of TLC-generated sequences (4 requests over 20 query classes x html/ajax, one fresh interpreter per sequence, every '
                           'non-first request paired with the same request served first by a fresh interpreter) + every picked corpus number of '
                           'every module in both modes',
                      extra={'sequences': len(seqs), 'corpus_requests': len(flat), 'processes': len(jobs)})


if __name__ == '__main__':
    run.main(main, PROP)
