"""C16 -- GS1-128 decoding and encoding are mutually consistent.
MC: the round trip on an abstract identifier table (MC_GS1.tla): holds under the canonical-value conditions,
and the implementation's zero-padding of variable-length decimals is refuted as a design.
TRACE: mappings of 1..5 real application identifiers with canonical values of their declared formats, in
every separator/parentheses mode: the code's encode / info / validate results are compared by TLC with
the specification's encoder (GS1.tla, E1) and among themselves (RT1 RT2 RT3)."""
import json, os, random, re, datetime, decimal
from vlib import lib, run, tlc, ndb
from props.c02 import first_meta

PROP = 'C16'
SEPS = ['', '\x1d', '[FNC1]', '|', '{FNC1}', '<GS>', '~']


def table():
    with open(os.path.join(lib.REPO, 'stdnum', 'gs1_ai.dat'), encoding='utf-8') as fh:
        tree, _ = ndb.parse_text(fh.read())
    rows = []
    for e in tree:
        lo, hi = ''.join(map(chr, e['low'])), ''.join(map(chr, e['high']))
        props = dict(e['props'])
        parts = []
        ok = True
        for comp in props.get('format', '').split('+'):
            opt = comp.startswith('[') or comp.endswith(']')
            m = re.match(r'^\[?([NXYZ])(\.\.)?(\d+)\]?$', comp)
            if not m:
                ok = False
                break
            n = int(m.group(3))
            parts.append({'cls': m.group(1), 'min': 0 if opt else (1 if m.group(2) else n), 'max': n, 'opt': opt})
        for a in ([lo] if lo == hi else [lo, hi]):
            rows.append({'ai': a, 'fmt': props.get('format', ''), 'type': props.get('type', 'str'), 'fnc1': bool(props.get('fnc1')),
                         'parts': parts, 'parsed': ok})
    return rows


def rand_str(part, rnd, n):
    if part['cls'] == 'N':
        return ''.join(rnd.choice('0123456789') for _ in range(n))
    s = ''.join(rnd.choice('ABCDEFGHJKLMNPQRSTUVWXYZ0123456789-./+_:') for _ in range(n))
    return s


def value_for(row, rnd, size):
    """(python value, spec value or None) of the declared format; size in {'min','mid','max'}."""
    typ, parts = row['type'], row['parts']
    total_max = sum(p['max'] for p in parts)
    total_min = max(1, sum(p['min'] for p in parts))
    if typ == 'int':
        n = {'min': 1, 'mid': max(1, total_max // 2), 'max': total_max}[size]
        s = rnd.choice('123456789') + ''.join(rnd.choice('0123456789') for _ in range(n - 1))
        return int(s), {'t': 'int', 's': lib.cps(s)}
    if typ == 'decimal':
        if len(parts) == 2:       # N3+N..15: currency code + amount
            cur = ''.join(rnd.choice('0123456789') for _ in range(3))
            n = {'min': 1, 'mid': 7, 'max': parts[1]['max']}[size]
            digs = rnd.choice('123456789') + ''.join(rnd.choice('0123456789') for _ in range(n - 1))
            scale = rnd.randrange(0, min(n, 10))
            d = decimal.Decimal(digs).scaleb(-scale)
            return (cur, d), None
        n = {'min': 1, 'mid': max(1, total_max // 2), 'max': total_max}[size]
        digs = rnd.choice('123456789') + ''.join(rnd.choice('0123456789') for _ in range(n - 1))
        scale = rnd.randrange(0, min(n, 10))
        d = decimal.Decimal(digs).scaleb(-scale)
        return d, {'t': 'dec', 's': lib.cps(digs), 'scale': scale}
    if typ == 'date':
        y, m = rnd.randrange(2000, 2049), rnd.randrange(1, 13)
        dd = rnd.randrange(1, 29)
        if row['fmt'] == 'N6':
            return datetime.date(y, m, dd), {'t': 'date', 'd': [y % 100, m, dd]}
        if row['fmt'] == 'N10':     # fixed 10 digits: whole hours and midnight are ordinary values here
            hh, mi = rnd.choice([(0, 0), (rnd.randrange(1, 24), 0), (rnd.randrange(24), rnd.randrange(1, 60))])
            return datetime.datetime(y, m, dd, hh, mi), None
        if row['fmt'] in ('N6[+N6]',):
            if size == 'min':
                return datetime.date(y, m, dd), None
            if size == 'mid':       # a range of a single day is still a range: (d, d) is a different value from d
                return (datetime.date(y, m, dd), datetime.date(y, m, dd)), None
            return (datetime.date(y, m, dd), datetime.date(y + 1, m, dd)), None
        if row['fmt'] in ('N6[+N4]',):
            if size == 'min':
                return datetime.date(y, m, dd), None
            return datetime.datetime(y, m, dd, rnd.randrange(24), rnd.randrange(1, 60)), None
        if row['fmt'].startswith('N8'):
            if size == 'min':
                return datetime.datetime(y, m, dd, rnd.randrange(1, 24), 0), None     # N8: yymmddhh
            if size == 'mid':       # a full hour with seconds: the minutes are 00 in the middle of the value, not at its end
                return datetime.datetime(y, m, dd, rnd.randrange(24), 0, rnd.randrange(1, 60)), None
            return datetime.datetime(y, m, dd, rnd.randrange(24), rnd.randrange(1, 60), rnd.randrange(1, 60)), None
        return datetime.date(y, m, dd), None
    # str
    if row['ai'] in ('01', '02'):
        from stdnum import ean
        body = ''.join(rnd.choice('0123456789') for _ in range(13))
        s = body + ean.calc_check_digit(body)
        return s, {'t': 'str', 's': lib.cps(s)}
    if row['ai'] == '8007':
        # an IBAN as the payer would type it: the value is data, it comes back as it went in (lower case included)
        s = rnd.choice(['NL91ABNA0417164300', 'GB82WEST12345698765432', 'BE71096123456769', 'nl91abna0417164300', 'Gb82west12345698765432'])
        return s, {'t': 'str', 's': lib.cps(s)}
    n = {'min': total_min, 'mid': max(total_min, (total_min + total_max) // 2), 'max': total_max}[size]
    out = ''
    remaining = n
    for i, p in enumerate(parts):
        rest_min = sum(q['min'] for q in parts[i + 1:])
        k = min(p['max'], max(p['min'], remaining - rest_min)) if i < len(parts) - 1 else min(p['max'], remaining)
        k = p['max'] if (p['min'] == p['max'] and not p['opt']) else k
        out += rand_str(p, rnd, k)
        remaining -= k
    out = out.strip() or '1'
    if out[0] == ' ' or out[-1] == ' ':
        out = 'A' + out[1:-1] + 'Z'
    return out, {'t': 'str', 's': lib.cps(out)}


def worker(unit, emit):
    rows, maps, p = unit
    lib.load_stdnum()
    from stdnum import gs1_128
    rnd = random.Random('%s/%s' % (p['seed'], json.dumps(maps)[:60]))
    by = dict((r['ai'], r) for r in rows)
    for ais, size in maps:
        ais = sorted(set(ais))
        mp, specm, covers = {}, [], True
        for a in ais:
            row = by[a]
            v, sv = value_for(row, rnd, size)
            mp[a] = v
            if sv is None or not row['parsed']:
                covers = False
            specm.append({'row': {'ai': lib.cps(a), 'parts': [{'cls': q['cls'], 'min': q['min'], 'max': q['max']} for q in row['parts']],
                                  'type': row['type'], 'fnc1': row['fnc1']},
                          'val': sv or {'t': 'str', 's': lib.cps('x')}})
        want = json.dumps(lib.canon(mp), sort_keys=True, ensure_ascii=True)
        for sep in p['seps']:
            for paren in (False, True):
                enc = lib.call(gs1_128.encode, mp, separator=sep, parentheses=paren)
                enc_s = lib.from_cps(enc['v']) if enc['k'] == 'ret' else None

                def canon_of(r):
                    return r['j'] if r['k'] == 'ret' and r['t'] == 'dict' else 'EXC ' + (r['cls'] or r['t'])
                dec1 = lib.call(gs1_128.info, enc_s, separator=sep) if enc_s is not None else enc
                val1 = lib.call(gs1_128.validate, enc_s, separator=sep) if enc_s is not None else enc
                val1_s = lib.from_cps(val1['v']) if val1['k'] == 'ret' and val1['t'] == 'str' else None
                dec2 = lib.call(gs1_128.info, val1_s, separator=sep) if val1_s is not None else val1
                val2 = lib.call(gs1_128.validate, val1_s, separator=sep) if val1_s is not None else val1
                sl = lambda r: {'k': r['k'], 't': r['t'], 'v': r['v']}
                emit.trace([{'m': specm if covers else [], 'spec_covers': covers, 'sep': lib.cps(sep), 'paren': paren, 'enc': sl(enc),
                             'dec1': canon_of(dec1), 'want': want, 'val1': sl(val1), 'dec2': canon_of(dec2), 'val2': sl(val2)}],
                           {'m': 'gs1_128', 'w': repr(mp)[:300], 'how': 'ais %s size %s sep %r paren %s' % (','.join(ais), size, sep, paren),
                            'site': enc['site'] or dec1.get('site', '') or val1.get('site', ''), 'enc': enc_s,
                            'dec1': canon_of(dec1)[:200], 'val1': val1_s, 'fmts': [by[a]['fmt'] + '/' + by[a]['type'] for a in ais]})
                emit.count('cases')


def ordered_worker(unit, emit):
    """Element strings constructed by the specification (Gen_GS1.tla) in arbitrary identifier order."""
    items, p = unit
    lib.load_stdnum()
    from stdnum import gs1_128
    for it in items:
        x, sep = it['x'], it['sep']
        sl = lambda r: {'k': r['k'], 't': r['t'], 'v': r['v']}

        def canon_of(r):
            return r['j'] if r['k'] == 'ret' and r['t'] == 'dict' else 'EXC ' + (r['cls'] or r['t'])
        dec1 = lib.call(gs1_128.info, x, separator=sep)
        val1 = lib.call(gs1_128.validate, x, separator=sep)
        val1_s = lib.from_cps(val1['v']) if val1['k'] == 'ret' and val1['t'] == 'str' else None
        dec2 = lib.call(gs1_128.info, val1_s, separator=sep) if val1_s is not None else val1
        val2 = lib.call(gs1_128.validate, val1_s, separator=sep) if val1_s is not None else val1
        emit.trace([{'m': [], 'spec_covers': False, 'ordered': True, 'sep': lib.cps(sep), 'paren': it['paren'], 'enc': sl(val1),
                     'dec1': canon_of(dec1), 'want': it['want'], 'val1': sl(val1), 'dec2': canon_of(dec2), 'val2': sl(val2)}],
                   {'m': 'gs1_128', 'w': x, 'how': 'spec-constructed order %s sep %r paren %s' % (it['order'], sep, it['paren']),
                    'site': dec1.get('site', '') or val1.get('site', ''), 'dec1': canon_of(dec1)[:200], 'val1': val1_s, 'fmts': it['fmts']})
        emit.count('ordered_cases')


def main():
    chk = run.Check(PROP)
    quick = chk.tier == 'quick'
    lib.load_stdnum()
    chk.mc('MC_GS1', 'MC_GS1', workers=8, label='abstract round trip under the canonical-value conditions')
    chk.mc('MC_GS1', 'MC_GS1_PadDecimals', workers=8, expect_violation='RT1', label='design finding: zero-padding a variable-length decimal')
    rows = table()
    rnd = random.Random(chk.seed)
    ais = [r['ai'] for r in rows]
    maps = []
    for a in ais:                                   # every identifier alone, three length classes
        for size in ('min', 'mid', 'max'):
            maps.append(([a], size))
    fixed = [r['ai'] for r in rows if not r['fnc1']]
    var = [r['ai'] for r in rows if r['fnc1']]
    for _ in range(600 if quick else 30000):        # combinations of 2..5 identifiers
        k = rnd.randrange(2, 6)
        sel = rnd.sample(ais, k)
        # decimal AIs differ only in the implied decimal digit: keep one of each 3-digit family
        fam = {}
        for a in sel:
            fam.setdefault(a[:3] if by_type(rows, a) == 'decimal' else a, a)
        maps.append((sorted(fam.values()), rnd.choice(['min', 'mid', 'max'])))
    p = {'seed': chk.seed, 'seps': SEPS[:3] if quick else SEPS}
    units = [(rows, maps[i::32], p) for i in range(32)]
    shards = chk.drive(units, worker)
    extra = run.merge_extra(shards)
    rej = chk.validate('Trace_GS1', shards, own_clauses={'E1', 'RT1', 'RT2', 'RT3'})

    def describe(r):
        meta = r.get('meta', {})
        fm = meta.get('fmts', [])
        return {'witness': meta.get('how', ''), 'detail': meta, 'site': meta.get('site', ''), 'module': 'gs1_128'}
    chk.report(rej, describe=describe)
    # ---- spec -> code: element strings constructed by Gen_GS1.tla in arbitrary identifier order
    by = dict((r['ai'], r) for r in rows)
    rnd2 = random.Random(chk.seed + 1)
    mapsfile = os.path.join(chk.work, 'maps.ndjson')
    pending = {}
    with open(mapsfile, 'w') as fh:
        for mi in range(400 if quick else 12000):
            k = rnd2.randrange(2, 5)
            cand = [a for a in rnd2.sample(ais, 12) if by[a]['parsed'] and by[a]['type'] in ('str', 'int') or (by[a]['type'] == 'date' and by[a]['fmt'] == 'N6')
                    or (by[a]['type'] == 'decimal' and by[a]['fmt'] in ('N6', 'N4'))]
            fam = {}
            for a in cand:
                fam.setdefault(a[:3] if by[a]['type'] == 'decimal' else a, a)
            sel = sorted(fam.values())[:k]
            if len(sel) < 2:
                continue
            mp, specm = {}, []
            okm = True
            for a in sel:
                v, sv = value_for(by[a], rnd2, rnd2.choice(['min', 'mid', 'max']))
                if sv is None:
                    okm = False
                    break
                mp[a] = v
                specm.append({'row': {'ai': lib.cps(a), 'parts': [{'cls': q['cls'], 'min': q['min'], 'max': q['max']} for q in by[a]['parts']],
                                      'type': by[a]['type'], 'fnc1': by[a]['fnc1']}, 'val': sv})
            if not okm:
                continue
            order = list(range(1, len(sel) + 1))
            rnd2.shuffle(order)
            sep = rnd2.choice(p['seps'])
            paren = rnd2.random() < 0.5
            pending[mi] = {'want': json.dumps(lib.canon(mp), sort_keys=True, ensure_ascii=True), 'sep': sep, 'paren': paren,
                           'order': [sel[i - 1] for i in order], 'fmts': [by[a]['fmt'] + '/' + by[a]['type'] for a in sel]}
            fh.write(json.dumps({'id': mi, 'm': specm, 'order': order, 'sep': lib.cps(sep), 'paren': paren}) + '\n')
    rg = tlc.run('Gen_GS1', workdir=chk.work, workers=1, env={'MAPS_FILE': mapsfile}, heap='3g')
    items = []
    for ln in rg.prints:
        v = tlc.parse_value(ln)
        if v and v[0] == 'X' and v[1] in pending:
            items.append(dict(pending[v[1]], x=lib.from_cps(v[2])))
    if len(items) < len(pending):
        raise run.MachineryError('Gen_GS1 constructed %d of %d element strings\n%s' % (len(items), len(pending), rg.out[-1500:]))
    chk.cov['states'] += rg.distinct
    chk.cov['transitions'] += rg.generated
    osh = chk.drive([(items[i::16], p) for i in range(16)], ordered_worker)
    oextra = run.merge_extra(osh)
    rej = chk.validate('Trace_GS1', osh, own_clauses={'E1', 'RT1', 'RT2', 'RT3'}, label='spec-constructed element strings in arbitrary order')
    chk.report(rej, describe=describe)
    extra['cases'] = extra.get('cases', 0) + oextra.get('ordered_cases', 0)
    return chk.finish(samples=first_meta(shards), distinct_nontrivial=extra.get('cases', 0),
                      rule='every application identifier alone in 3 length classes and random combinations of 2-5 identifiers, values drawn from the '
                           'declared format (canonical: no edge spaces, no leading zeros, dates with real days, decimals with 0-9 implied places), '
                           'x separator in {none, stand-ins} x parentheses on/off',
                      extra={'identifiers': len(ais), 'mappings': len(maps), 'cases': extra.get('cases', 0)})


def by_type(rows, a):
    for r in rows:
        if r['ai'] == a:
            return r['type']
    return ''


if __name__ == '__main__':
    run.main(main, PROP)
