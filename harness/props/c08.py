"""C08 -- conversions between formats preserve validity and identity.
The conversion table, the positional embedding relation of every row and the clauses K0-K4 are in
Convert.tla; the driver applies each conversion to valid source numbers (corpus + synthesised) in compact,
space- and hyphen-separated presentations, asks the target format's validator about the result, applies
the inverse, and records; TLC judges."""
import json, os, random, importlib
from vlib import lib, run, tlc
from props import api_common as ac
from props.c02 import first_meta
from props.c17 import valid_bases

PROP = 'C08'
# row id -> (source module, function, target validator module, inverse (module, function) or None, source filter)
ROWS = {
    'isbn.to_isbn13': ('isbn', 'to_isbn13', 'isbn', ('isbn', 'to_isbn10'), lambda v: len(v) == 10),
    'isbn.to_isbn10': ('isbn', 'to_isbn10', 'isbn', ('isbn', 'to_isbn13'), lambda v: len(v) == 13),
    'isbn.format_convert': ('isbn', 'format', 'isbn', None, lambda v: len(v) == 10),       # format(x, convert=True): the ISBN-13 layout
    'isbn.validate_convert': ('isbn', 'validate', 'isbn', ('isbn', 'to_isbn10'), lambda v: len(v) == 10),
    'isan.add_check_digits': ('isan', 'validate', 'isan', None, None),      # validate(x, add_check_digits=True)
    'isan.strip_check_digits': ('isan', 'validate', 'isan', None, None),    # validate(x, strip_check_digits=True)
    'ismn.to_ismn13': ('ismn', 'to_ismn13', 'ismn', None, None),
    'issn.to_ean': ('issn', 'to_ean', 'ean', None, None),
    'cusip.to_isin': ('cusip', 'to_isin', 'isin', None, None),
    'gb.sedol.to_isin': ('gb.sedol', 'to_isin', 'isin', None, None),
    'de.wkn.to_isin': ('de.wkn', 'to_isin', 'isin', None, None),
    'es.ccc.to_iban': ('es.ccc', 'to_iban', 'es.iban', ('es.iban', 'to_ccc'), None),
    'es.iban.to_ccc': ('es.iban', 'to_ccc', 'es.ccc', ('es.ccc', 'to_iban'), None),
    'no.kontonr.to_iban': ('no.kontonr', 'to_iban', 'no.iban', ('no.iban', 'to_kontonr'), None),
    'no.iban.to_kontonr': ('no.iban', 'to_kontonr', 'no.kontonr', ('no.kontonr', 'to_iban'), None),
    'au.acn.to_abn': ('au.acn', 'to_abn', 'au.abn', None, None),
    'fr.siret.to_siren': ('fr.siret', 'to_siren', 'fr.siren', None, None),
    'fr.siret.to_tva': ('fr.siret', 'to_tva', 'fr.tva', None, None),
    'fr.siren.to_tva': ('fr.siren', 'to_tva', 'fr.tva', None, None),
    'pe.cui.to_ruc': ('pe.cui', 'to_ruc', 'pe.ruc', ('pe.ruc', 'to_dni'), None),
    'pe.ruc.to_dni': ('pe.ruc', 'to_dni', None, None, lambda v: v.startswith('10')),
    'in_.gstin.to_pan': ('in_.gstin', 'to_pan', 'in_.pan', None, None),
    'ie.vat.convert': ('ie.vat', 'convert', 'ie.vat', None, None),
    'it.aic.to_base32': ('it.aic', 'to_base32', 'it.aic', ('it.aic', 'from_base32'), None),
    'de.stnr.to_country_number': ('de.stnr', 'to_country_number', 'de.stnr', ('de.stnr', 'to_regional_number'), lambda v: len(v) in (10, 11)),
    'mac.to_eui48': ('mac', 'to_eui48', 'mac', None, None),
    'meid.to_pseudo_esn': ('meid', 'to_pseudo_esn', None, None, None),
    # the two representations of a MEID (14 hexadecimal / 18 decimal digits, check digit kept when present)
    'meid.format_hex': ('meid', 'format', 'meid', None, None),       # format(x, format='hex')
    'meid.format_dec': ('meid', 'format', 'meid', None, None),       # format(x, format='dec')
    'meid.compact_keep': ('meid', 'compact', 'meid', None, None),    # compact(x, strip_check_digit=False)
    'be.iban.to_bic': ('be.iban', 'to_bic', 'bic', None, None),
    'cz.bankaccount.to_bic': ('cz.bankaccount', 'to_bic', 'bic', None, None),
}
NONE = {'k': 'none', 't': '', 'v': [], 'mro': []}
MEID_KW = {'meid.format_hex': {'format': 'hex', 'separator': ''}, 'meid.format_dec': {'format': 'dec', 'separator': ''},
           'meid.compact_keep': {'strip_check_digit': False}}


def _luhn_cd(s, base):
    """input construction only: the Luhn check digit of s in the given base (never used to judge)"""
    alphabet = '0123456789ABCDEF'[:base]
    for c in alphabet:
        t = 0
        for i, ch in enumerate(reversed(s + c)):
            d = alphabet.index(ch)
            if i % 2:
                d = sum(divmod(d * 2, base))
            t += d
        if t % base == 0:
            return c


def meid_worker(row, src, vals, rnd, emit):
    """sources in both representations, with and without check digit, for every 14-digit body -- and for its all-decimal
    look-alike (a hexadecimal MEID made of decimal digits only is an IMEI and takes the decimal check digit)"""
    kw = MEID_KW[row]
    bodies = []
    for v in vals:
        if len(v) != 14:
            continue
        bodies.append(v)
        bodies.append(''.join(ch if ch.isdigit() else str((ord(ch) - 55) % 10) for ch in v))
    for v in dict.fromkeys(bodies):
        dec = '%010d%08d' % (int(v[:8], 16), int(v[8:], 16))
        hexcd = _luhn_cd(v, 10 if v.isdigit() else 16)
        for withcd, group in (('1', [v + hexcd, dec + _luhn_cd(dec, 10)]), ('0', [v, dec])):
            evs = []
            for x0 in group:
                for x in (x0, x0[:5] + ' ' + x0[5:10] + '-' + x0[10:]):
                    if lib.call(src.validate, x)['k'] != 'ret':
                        emit.count('meid_source_not_accepted')
                        continue
                    w = lib.call(getattr(src, ROWS[row][1]), x, **kw)
                    wtxt = lib.from_cps(w['v']) if w['k'] == 'ret' and w['t'] == 'str' else None
                    dv = lib.call(src.validate, wtxt, strip_check_digit=False) if wtxt is not None else NONE
                    evs.append({'row': row, 'v': lib.cps(v), 'pres': lib.cps(x), 'w': sl(w), 'dv': sl(dv), 'hasinv': False, 'inv': sl(NONE),
                                'invwant': [], 'opt': lib.cps(withcd)})
            if evs:
                emit.trace(evs, {'m': 'meid', 'w': v, 'how': '%s %s check digit %s' % (row, json.dumps(kw), withcd), 'site': '',
                                 'results': [lib.from_cps(e['w']['v']) if e['w']['k'] == 'ret' else e['w']['k'] for e in evs][:4]})
                emit.count('conversions', len(evs))


def sl(r):
    return {'k': r['k'], 't': r['t'], 'v': r['v'], 'mro': r.get('mro', [])}


def presentations(v, mod, rnd):
    out = [v]
    for sep in (' ', '-'):
        if len(v) > 4:
            cuts = sorted(rnd.sample(range(1, len(v)), min(3, len(v) - 1)))
            x = ''
            last = 0
            for c in cuts:
                x += v[last:c] + sep
                last = c
            x += v[last:]
            try:
                if mod.compact(x) == mod.compact(v):
                    out.append(x)
            except Exception:
                pass
    try:
        if hasattr(mod, 'format'):
            f = mod.format(v)
            if f not in out and mod.compact(f) == mod.compact(v):
                out.append(f)
    except Exception:
        pass
    return out


def worker(unit, emit):
    row, p = unit
    srcn, fn, dstn, inv, flt = ROWS[row]
    lib.load_stdnum()
    src = lib.module(srcn)
    f = getattr(src, fn)
    dst = lib.module(dstn) if dstn else None
    rnd = random.Random('%s/%s' % (p['seed'], row))
    vals = valid_bases(srcn, src, p['bases'], rnd, p['synth'])
    if flt:
        vals = [v for v in vals if flt(v)]
    emit.count('rows')
    if row in MEID_KW:
        return meid_worker(row, src, vals, rnd, emit)
    for v in vals:
        opts = [{}]
        optcp = []
        if row == 'issn.to_ean':
            opts = [{}] + [{'issue_code': '%02d' % rnd.randrange(100)} for _ in range(p['issue_codes'])]
        if row in ('isbn.format_convert', 'isbn.validate_convert'):
            opts = [{'convert': True}]
        if row == 'isan.add_check_digits':
            opts = [{'add_check_digits': True}]
        if row == 'isan.strip_check_digits':
            opts = [{'strip_check_digits': True}]
        if row == 'de.stnr.to_country_number':
            from stdnum.de import stnr
            opts = [{'region': r} for r in p['regions'] if stnr.is_valid(v, r)]
        for kw in opts:
            evs = []
            for x in presentations(v, src, rnd):
                w = lib.call(f, x, **kw)
                wtxt = lib.from_cps(w['v']) if w['k'] == 'ret' and w['t'] == 'str' else None
                if dst is not None and wtxt is not None:
                    dkw = {'region': kw['region']} if row == 'de.stnr.to_country_number' else {}
                    dv = lib.call(dst.validate, wtxt, **dkw)
                else:
                    dv = NONE
                e = {'row': row, 'v': lib.cps(v), 'pres': lib.cps(x), 'w': sl(w), 'dv': sl(dv), 'hasinv': False, 'inv': sl(NONE), 'invwant': [],
                     'opt': lib.cps(kw.get('issue_code', '00'))}
                if inv and wtxt is not None:
                    im = lib.module(inv[0])
                    r1 = lib.call(getattr(im, inv[1]), wtxt)
                    if r1['k'] == 'ret' and r1['t'] == 'str':
                        # canonical source form of what the inverse returned
                        r2 = lib.call(src.validate, lib.from_cps(r1['v'])) if row not in ('pe.cui.to_ruc',) else r1
                    else:
                        r2 = r1
                    e['hasinv'] = True
                    e['inv'] = sl(r2)
                    e['invwant'] = lib.cps(v[:8]) if row == 'pe.cui.to_ruc' else lib.cps(v)
                    if row == 'isbn.to_isbn13' or row == 'isbn.to_isbn10':
                        e['invwant'] = lib.cps(v)
                evs.append(e)
                # the inverse conversion must not depend on separators either: the converted number respelled with a blank in
                # the middle and in the formatted layout of its own module (kept only when that module's compact() maps the
                # respelling back to the converted number)
                if inv and wtxt is not None and x == v and len(wtxt) > 3:
                    im = lib.module(inv[0])
                    respell = [wtxt[:len(wtxt) // 2] + ' ' + wtxt[len(wtxt) // 2:], ' ' + wtxt + ' ']
                    try:
                        if hasattr(im, 'format'):
                            respell.append(im.format(wtxt))
                    except Exception:
                        pass
                    for y in dict.fromkeys(respell):
                        try:
                            if y == wtxt or not hasattr(im, 'compact') or im.compact(y) != im.compact(wtxt):
                                continue
                        except Exception:
                            continue
                        r1 = lib.call(getattr(im, inv[1]), y)
                        if r1['k'] == 'ret' and r1['t'] == 'str' and row not in ('pe.cui.to_ruc',):
                            r2 = lib.call(src.validate, lib.from_cps(r1['v']))
                        else:
                            r2 = r1
                        evs.append(dict(e, inv=sl(r2)))
                        emit.count('inverse_on_respelled_target')
            emit.trace(evs, {'m': srcn, 'w': v, 'how': '%s %s' % (row, json.dumps(kw)), 'site': '',
                             'results': [lib.from_cps(e['w']['v']) if e['w']['k'] == 'ret' else e['w']['k'] for e in evs][:4]})
            emit.count('conversions', len(evs))


def main():
    chk = run.Check(PROP)
    quick = chk.tier == 'quick'
    lib.load_stdnum()
    from stdnum.de import stnr
    regions = sorted(set(r[0] if isinstance(r, (tuple, list)) else r for r in getattr(stnr, 'REGIONS', []) )) or \
        ['Baden-Württemberg', 'Bayern', 'Berlin', 'Brandenburg', 'Bremen', 'Hamburg', 'Hessen', 'Mecklenburg-Vorpommern', 'Niedersachsen',
         'Nordrhein-Westfalen', 'Rheinland-Pfalz', 'Saarland', 'Sachsen', 'Sachsen-Anhalt', 'Schleswig-Holstein', 'Thüringen']
    p = {'seed': chk.seed, 'bases': 25 if quick else 400, 'synth': 8 if quick else 80, 'issue_codes': 3 if quick else 99, 'regions': regions}
    units = [(row, p) for row in sorted(ROWS)]
    shards = chk.drive(units, worker)
    extra = run.merge_extra(shards)
    rej = chk.validate('Trace_Convert', shards, own_clauses={'K0', 'K1', 'K2', 'K3', 'K4'})
    chk.report(rej)
    return chk.finish(samples=first_meta(shards), distinct_nontrivial=extra.get('conversions', 0),
                      rule='per conversion row: valid source numbers (corpus + synthesised valid neighbours) x presentations (compact, space- and '
                           'hyphen-separated at random cut points that compact() removes, the module\'s own format) x options (issue codes, regions)',
                      extra={'rows': sorted(ROWS), 'conversions': extra.get('conversions', 0)})


if __name__ == '__main__':
    run.main(main, PROP)
