"""C10 -- registry lookup splits numbers losslessly and by the documented prefix rules.
MC: the declarative lookup NumDB.tla satisfies Lossless / ShortestWins / MergeAll / ... on all
small registries (bounded-exhaustive).  GEN: TLC generates larger well-formed registries; the driver
writes them as file text for the real numdb.read() and records info().  TRACE: every recorded lookup
(generated and the 17 shipped registries, independently parsed) is re-evaluated by TLC."""
import io, json, os, random, glob
from vlib import lib, run, tlc, ndb

PROP = 'C10'


def registries():
    base = os.path.join(lib.REPO, 'stdnum')
    out = []
    for p in sorted(glob.glob(os.path.join(base, '*.dat')) + glob.glob(os.path.join(base, '*', '*.dat'))):
        out.append((os.path.relpath(p, base)[:-4], p))
    return out


def obs_of(info):
    return [[lib.cps(part), sorted([[str(k), str(v)] for k, v in props.items()])] for part, props in info]


def dump_tree(prefixes):
    return [{'len': length, 'low': lib.cps(low), 'high': lib.cps(high), 'props': sorted([str(k), str(v)] for k, v in props.items()),
             'kids': dump_tree(children)} for length, low, high, props, children in prefixes]


def flat_lines(level, depth=0):
    out = []
    for ln in level:
        out.append({'indent': depth, 'ranges': [[list(lo), list(hi)] for lo, hi in ln['ranges']], 'props': [list(x) for x in ln['props']]})
        out.extend(flat_lines(ln['kids'], depth + 1))
    return out


def shipped_worker(unit, emit):
    name, path, qs, dbfile = unit
    lib.load_stdnum()
    from stdnum import numdb
    db = numdb.get(name)
    for q in qs:
        r = lib.call(db.info, q)
        if r['k'] == 'exc':
            obs = [[lib.cps('!' + r['cls']), []]]
        else:
            obs = obs_of(db.info(q))
        emit.trace([{'db': 1, 'q': lib.cps(q), 'obs': obs}], {'m': 'numdb:' + name, 'w': q, 'how': 'shipped registry lookup', 'site': r['site']})
        emit.count('lookups')
    emit.extra['dbfile'] = dbfile


def main():
    chk = run.Check(PROP)
    quick = chk.tier == 'quick'
    lib.load_stdnum()
    from stdnum import numdb
    # ---- MC: the declarative definition has the properties (bounded-exhaustive)
    chk.mc('MC_NumDB', 'MC_NumDB_small', workers=8, label='all registries with 1 top-level entry (+child), queries <= 3')
    if not quick:
        chk.mc('MC_NumDB', 'MC_NumDB', workers=16, heap='12g', label='all registries with <= 2 top-level entries (+child each), queries <= 3')
    # ---- GEN: TLC-generated registries -> real numdb.read()/info()
    nreg = 300 if quick else 6000
    rg = tlc.run('Gen_NumDB', workdir=chk.work, workers=1, simulate='num=%d' % nreg, depth=3, seed=chk.seed)
    regs = []
    for ln in rg.prints:
        v = tlc.parse_value(ln)
        if v and v[0] == 'REG':
            regs.append((v[1], v[2]))
    if len(regs) < nreg:
        raise run.MachineryError('registry generator produced %d registries\n%s' % (len(regs), rg.out[-1500:]))
    chk.cov['stages'].append({'stage': 'GEN', 'spec': 'Gen_NumDB', 'registries': len(regs)})
    rnd = random.Random(chk.seed)
    dbs, events, index = [], [], []
    samples = []
    for gi, (lines, qs) in enumerate(regs):
        text = '\n'.join(['# generated'] + ndb.serialise(lines)) + '\n'
        tree = ndb.tree_of_lines(lines)
        real = numdb.read(io.StringIO(text))
        dbs.append(tree)
        qset = set(''.join(chr(c) for c in q) for q in qs)
        qset.update(ndb.queries(tree, rnd, 30, 5))
        for q in sorted(qset):
            r = lib.call(real.info, q)
            obs = obs_of(real.info(q)) if r['k'] == 'ret' else [[lib.cps('!' + r['cls']), []]]
            events.append({'db': len(dbs), 'q': lib.cps(q), 'obs': obs})
            index.append({'m': 'numdb:generated', 'w': q, 'how': 'generated registry', 'file': text})
        if gi < 2:
            samples.append({'generated_registry': text, 'queries': sorted(qset)[:6]})
    # ---- the tree numdb.read() builds = the tree the file means (NumDBFile!BuildTree), generated and shipped registries
    tev, tidx = [], []
    for gi, (lines, qs) in enumerate(regs[:150 if quick else 3000]):
        text = '\n'.join(['# generated'] + ndb.serialise(lines)) + '\n'
        real = numdb.read(io.StringIO(text))
        tev.append({'lines': flat_lines(lines), 'obs': dump_tree(real.prefixes)})
        tidx.append({'m': 'numdb:generated', 'w': text[:300], 'how': 'tree of a generated registry', 'site': ''})
    for name, path in registries():
        with open(path, encoding='utf-8') as fh:
            tree, plines = ndb.parse_text(fh.read())
        if len(plines) > 4000:
            continue            # oui.dat: building a 30,000-line tree in TLC is quadratic; its lookups are covered below
        lines = [{'indent': pl['indent'], 'ranges': [[lib.cps(lo), lib.cps(hi)] for lo, hi in pl['ranges']],
                  'props': [[k, v] for k, v in pl['props']]} for pl in plines]
        tev.append({'lines': lines, 'obs': dump_tree(numdb.get(name).prefixes)})
        tidx.append({'m': 'numdb:' + name, 'w': name, 'how': 'tree of a shipped registry', 'site': ''})
    tsh = []
    for s_ in range(8):
        ep, ip = os.path.join(chk.work, 'tree_%d.ndjson' % s_), os.path.join(chk.work, 'tree_%d.index' % s_)
        n = 0
        with open(ep, 'w') as fh, open(ip, 'w') as ih:
            for e, m in list(zip(tev, tidx))[s_::8]:
                n += 1
                fh.write(json.dumps(dict(e, tid=n)) + '\n')
                ih.write(json.dumps([n, m]) + '\n')
        tsh.append({'events': ep, 'index': ip, 'n_events': n, 'n_traces': n})
    rejt = chk.validate('Trace_NumDBTree', tsh, heap='4g', label='read() builds the tree the file means')
    chk.report(rejt)
    # shard the generated events
    nsh = 8
    shards = []
    for s in range(nsh):
        lo, hi = s * len(dbs) // nsh, (s + 1) * len(dbs) // nsh
        dbfile = os.path.join(chk.work, 'gen_db_%d.json' % s)
        with open(dbfile, 'w') as fh:
            json.dump({'dbs': dbs[lo:hi]}, fh)
        ep = os.path.join(chk.work, 'gen_ev_%d.ndjson' % s)
        ip = os.path.join(chk.work, 'gen_ev_%d.index' % s)
        n = 0
        with open(ep, 'w') as fh, open(ip, 'w') as ih:
            for e, meta in zip(events, index):
                if lo < e['db'] <= hi:
                    n += 1
                    fh.write(json.dumps({'tid': n, 'db': e['db'] - lo, 'q': e['q'], 'obs': e['obs']}) + '\n')
                    ih.write(json.dumps([n, meta]) + '\n')
        shards.append({'events': ep, 'index': ip, 'n_events': n, 'n_traces': n, 'dbfile': dbfile})
    rej = []
    for sh in shards:
        rej += chk.validate('Trace_NumDB', [sh], env={'DB_FILE': sh['dbfile']}, label='generated registries')
    chk.report(rej)
    n_gen = len(events)
    # ---- shipped registries
    units = []
    total_q = 0
    for name, path in registries():
        with open(path, encoding='utf-8') as fh:
            tree, lines = ndb.parse_text(fh.read())
        dbfile = os.path.join(chk.work, 'db_%s.json' % name.replace('/', '_'))
        with open(dbfile, 'w') as fh:
            json.dump({'dbs': [tree]}, fh)
        qs = ndb.queries(tree, rnd, 250 if quick else 6000, 100 if quick else 3000)
        if quick and len(qs) > 2500:
            qs = [''] + rnd.sample(qs, 2500)
        total_q += len(qs)
        # split big registries over several shards
        k = max(1, len(qs) // 1500)
        for i in range(k):
            units.append((name, path, qs[i::k], dbfile))
    sh2 = []
    for u in units:
        s = chk.drive([u], shipped_worker, nproc=1, shuffle=False)
        s[0]['dbfile'] = u[3]
        sh2 += s
    rej = []
    from concurrent.futures import ThreadPoolExecutor
    def one(sh):
        return chk.validate('Trace_NumDB', [sh], env={'DB_FILE': sh['dbfile']}, label='shipped ' + os.path.basename(sh['dbfile']))
    with ThreadPoolExecutor(max_workers=8) as ex:
        for r in ex.map(one, [s for s in sh2 if s['n_events']]):
            rej += r
    chk.report(rej)
    samples.append({'shipped_registries': [n for n, _ in registries()], 'lookups': total_q})
    return chk.finish(samples=samples, distinct_nontrivial=n_gen + total_q,
                      rule='lookups on TLC-generated well-formed registries (depth <= 3, multi-range lines, overlapping ranges of different '
                           'lengths, shared keys) with generated + end-point queries, and on the 17 shipped registries with every sampled '
                           'path of range end points, end points +/- 1, tails, random strings, the empty string; all distinct',
                      extra={'generated_registries': len(regs), 'generated_lookups': n_gen, 'shipped_lookups': total_q})


if __name__ == '__main__':
    run.main(main, PROP)
