"""C17 -- single typing errors in check-digit protected identifiers are rejected.
MC: the product automata of C06 (standard definitions) + positional weighted-sum automata.
TRACE: exhaustive neighbourhood (every position x every same-class character; every adjacent pair of
different digits) of valid numbers of the bound modules, recorded from the code, judged by TLC."""
import json, os, random
from vlib import lib, run, tlc

PROP = 'C17'
BIND = os.path.join(lib.VERIF, 'bindings', 'single_error.json')


def load_bindings():
    with open(BIND) as fh:
        return json.load(fh)


def valid_bases(name, mod, n, rnd, synth):
    corp = lib.corpus(name, mod)
    vals = []
    seen = set()
    for c in corp:
        try:
            v = mod.validate(c)
        except Exception:
            continue
        if isinstance(v, str) and v not in seen and mod.is_valid(v) is True:
            seen.add(v)
            vals.append(v)
    vals.sort()
    bases = lib.pick(vals, n, rnd)
    # synthesised valid neighbours: change one payload character, search the others for a valid completion
    out = list(bases)
    for b in bases[:synth]:
        for _ in range(40):
            i = rnd.randrange(len(b))
            c = b[i]
            if c.isdigit():
                r = str(rnd.randrange(10))
            elif c.isupper():
                r = chr(65 + rnd.randrange(26))
            else:
                continue
            t = b[:i] + r + b[i + 1:]
            for j in range(len(t) - 1, max(-1, len(t) - 4), -1):
                for d in '0123456789X':
                    u = t[:j] + d + t[j + 1:]
                    if u not in seen and u != b:
                        try:
                            ok = mod.is_valid(u) is True and mod.validate(u) == u
                        except Exception:
                            ok = False
                        if ok:
                            seen.add(u)
                            out.append(u)
                            break
                else:
                    continue
                break
            if len(out) >= n + synth * 3:
                break
    # deterministic neighbours: the characters the module's own source mentions (type letters, symbols) at every position, and
    # 0 / 9 at the first positions (leading zeros, range ends), each kept when it is -- possibly after searching the last
    # character -- a valid number in canonical form
    from vlib import inputs
    alpha0 = inputs.module_alphabet(mod, cap=60)
    alpha = ([c for c in alpha0 if not c.isalnum()] + [c for c in alpha0 if c.isalnum()])[:32]      # symbols first
    layouts = lib.pick_bases(name, mod, [], 0, rnd, cap=5, corpus_items=list(bases))      # one base per documented layout
    for b in list(dict.fromkeys(list(bases[:2]) + layouts)):
        if not b.isascii():
            continue
        cands = [b[:i] + ch + b[i + 1:] for i in range(len(b)) for ch in alpha if ch != b[i]]
        cands += [b[:i] + ch + b[i + 1:] for i in range(min(4, len(b) - 1)) for ch in '09' if ch != b[i]]
        for t in cands:
            for u in [t] + [t[:-1] + d for d in '0123456789X' if d != t[-1]]:
                if u in seen:
                    continue
                try:
                    ok = mod.is_valid(u) is True and mod.validate(u) == u
                except Exception:
                    ok = False
                if ok:
                    seen.add(u)
                    out.append(u)
                    break
    # neighbours of the digit strings the module's source mentions (special prefixes such as the SIREN of La Poste): numbers that
    # share all but the last one or two digits of such a literal, continue it, or carry it one or two places further right,
    # completed to a valid number by searching one inner position and the last character -- where a special case that was
    # widened, narrowed or loosened from "starts with" to "contains" shows
    def complete(t, fixed):
        for dl in '0123456789X':                     # the last character alone first
            u = t[:-1] + dl
            try:
                if u not in seen and mod.is_valid(u) is True and mod.validate(u) == u:
                    return u
            except Exception:
                pass
        for j in range(fixed, len(t) - 1):
            for dj in '0123456789':
                for dl in '0123456789':
                    u = t[:j] + dj + t[j + 1:-1] + dl
                    if u in seen:
                        continue
                    try:
                        if mod.is_valid(u) is True and mod.validate(u) == u:
                            return u
                    except Exception:
                        pass
        return None
    found = 0
    for b in bases[:1]:
        if not (b.isascii() and b.isdigit()):
            continue
        lits0 = [q for q in inputs.literals(mod, minlen=3, maxlen=max(4, len(b) - 1), cap=40) if q.isdigit()]
        lits = []
        for q in lits0:                   # the literal, its numeric successor and predecessor (range bounds that are off by one)
            for w in (q, ('%0' + str(len(q)) + 'd') % (int(q) + 1), ('%0' + str(len(q)) + 'd') % max(0, int(q) - 1)):
                if len(w) == len(q) and w not in lits:
                    lits.append(w)
        for L in lits:
            if found >= 36:
                continue
            templates = []
            for k in (len(L), len(L) - 1, len(L) - 2):
                for d in '0123456789':
                    pre = L[:k] + d
                    if (k < len(L) and L.startswith(pre)) or len(pre) >= len(b):
                        continue
                    templates.append((pre + b[len(pre):], len(pre), k < len(L) or d == '3'))
            for off in (1, 2, 3, 4, 5):       # the literal behind the base's own first characters (range bounds behind a prefix) ...
                if off + len(L) < len(b):
                    templates.append((b[:off] + L + b[off + len(L):], 2000 + off + len(L), False))
            for off in (1, 2):                # ... and behind other leading digits
                if off + len(L) < len(b) - 1:
                    for lead in ('0123456789' if off == 1 else ['%02d' % q for q in range(0, 100, 7)]):
                        templates.append((lead + L + b[off + len(L):], 1000 + off + len(L), lead == '9'))
            stop_k = None
            for t, fixed, last_of_group in templates:
                if stop_k == fixed:
                    continue
                hit = complete(t, fixed % 1000)
                if hit:
                    seen.add(hit)
                    out.append(hit)
                    found += 1
                    if last_of_group:
                        stop_k = fixed
    return out


def worker(unit, emit):
    name, b, p = unit
    mod = lib.module(name)
    rnd = random.Random('%s/%s' % (p['seed'], name))
    bases = valid_bases(name, mod, p['bases'], rnd, p['synth'])
    emit.count('modules')
    emit.count('bases', len(bases))
    from props import api_common as ac
    optsets = [{}] + [kw for kw in ac.option_sets(name, mod, fn='validate')[1:]]       # documented options (isbn convert=True, ...)
    for v, kw in [(v, kw) for v in bases for kw in optsets]:
        if b.get('only_len') and len(v) not in b['only_len']:
            continue
        rb = lib.call(mod.validate, v, **kw)
        bacc = rb['k'] == 'ret'
        if kw and not bacc:
            continue
        okw = ' ' + ac.opt_id(kw) if kw else ''
        if any(v.startswith(x) for x in b.get('exclude_prefix', [])):
            continue
        lo_, hi_ = (b.get('pos') or [0, None])
        covered = range(len(v))[slice(lo_, hi_)]
        if b.get('subst', True):
            for i, c in enumerate(v):
                if i not in covered:
                    continue
                if c.isdigit():
                    alts = [d for d in '0123456789' if d != c]
                elif c.isascii() and c.isupper():
                    alts = [chr(k) for k in range(65, 91) if chr(k) != c]
                else:
                    continue
                for a in alts:
                    ed = v[:i] + a + v[i + 1:]
                    r = lib.call(mod.is_valid, ed) if not kw else lib.call(mod.validate, ed, **kw)
                    emit.count('neighbours')
                    emit.trace([{'m': name, 'kind': 'subst', 'base': lib.cps(v), 'ed': lib.cps(ed), 'bacc': bacc,
                                 'acc': (r['k'] == 'ret' and r['b'] is True) if not kw else r['k'] == 'ret'}],
                               {'m': name, 'w': ed, 'base': v, 'how': 'subst@%d%s' % (i, okw)})
        if b.get('swap', False) and not (b.get('swap_only_len') and len(v) not in b['swap_only_len']):
            for i in range(len(v) - 1):
                if v[i] != v[i + 1] and v[i].isdigit() and v[i + 1].isdigit():
                    ed = v[:i] + v[i + 1] + v[i] + v[i + 2:]
                    r = lib.call(mod.is_valid, ed) if not kw else lib.call(mod.validate, ed, **kw)
                    emit.count('neighbours')
                    emit.trace([{'m': name, 'kind': 'swap', 'base': lib.cps(v), 'ed': lib.cps(ed), 'bacc': bacc,
                                 'acc': (r['k'] == 'ret' and r['b'] is True) if not kw else r['k'] == 'ret'}],
                               {'m': name, 'w': ed, 'base': v, 'how': 'swap@%d%s' % (i, okw)})


def main():
    chk = run.Check(PROP)
    quick = chk.tier == 'quick'
    bind = load_bindings()
    # design level: the algorithms these formats rely on (standard definitions)
    for algo in ['luhn10', 'verhoeff', 'damm', 'mod_11_2', 'mod_11_10', 'mod_37_36', 'mod_97_10']:
        r = chk.mc('MC_ChecksumPA', env={'ALGO': algo, 'AUTOMATON_FILE': ''}, workers=8, label='standard ' + algo)
        if r.violated:
            raise run.MachineryError('standard %s violates %s' % (algo, r.violated))
    for fmt in ['isbn10', 'issn', 'ean13', 'ean8', 'ean12', 'ean14']:
        r = chk.mc('MC_Weighted', env={'FORMAT': fmt}, workers=4, label='positional ' + fmt)
        if r.violated:
            raise run.MachineryError('positional automaton %s violates %s' % (fmt, r.violated))
    # IBAN / ISO 11649: Mod 97-10 on the rotated string, incl. the swap across the check digit / BBAN boundary (difference automaton)
    r = chk.mc('Rot97', 'MC_Rot97', workers=8, label='rotated Mod 97-10, BBAN <= 30 characters: every substitution and adjacent digit swap')
    if r.violated:
        raise run.MachineryError('Rot97 violates %s' % r.violated)
    chk.mc('Rot97', 'MC_Rot97_unbounded', workers=8, expect_violation='Detected', label='negative: without the length bound the boundary swap is missed (10^96 = 1 mod 97)')
    chk.mc('MC_Weighted', env={'FORMAT': 'NEG_ean_swap'}, workers=4, expect_violation='SwapDetected',
           label='negative: EAN weights do not detect every adjacent swap')
    # the implementation's own automata of the algorithms the bound modules delegate to (extracted as in C06):
    # decides the claim for ALL numbers of the delegating modules, not only the sampled neighbourhoods
    from props import c06
    for inst in c06.instances('quick'):
        if inst['name'] in ('luhn10', 'luhn36', 'verhoeff', 'damm', 'mod_11_2', 'mod_11_10', 'mod_37_36', 'mod_97_10'):
            c06.mc_extracted(chk, inst)
    p = {'seed': chk.seed, 'bases': 12 if quick else 150, 'synth': 4 if quick else 40}
    units = [(name, b, p) for name, b in sorted(bind['modules'].items()) if any(n == name for n, _ in lib.modules())]
    missing = [name for name in bind['modules'] if not any(n == name for n, _ in lib.modules())]
    chk.cov['bound_modules_no_longer_present'] = missing
    shards = chk.drive(units, worker)
    extra = run.merge_extra(shards)
    rej = chk.validate('Trace_Typo', shards, own_clauses={'E1'})
    chk.report(rej)
    from props.c02 import first_meta
    return chk.finish(samples=first_meta(shards), distinct_nontrivial=extra.get('neighbours', 0), exhaustive=False,
                      rule='for every bound module: valid numbers (corpus + synthesised) x every position x every same-class replacement '
                           'character, and every adjacent pair of different digits where the property claims swaps; each neighbour is one '
                           'event; the neighbourhood of each number is exhaustive',
                      extra={'modules': extra.get('modules', 0), 'bases': extra.get('bases', 0),
                             'excluded_with_reason': bind.get('excluded', {})})


if __name__ == '__main__':
    run.main(main, PROP)
