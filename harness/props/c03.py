"""C03 -- validation outcome depends only on the compact form.
Session: validate(x,o) ; compact(x) ; compact(y) ; validate(y,o) with y a decoration of x.
TLC evaluates D1: when the two compact results are equal strings the outcomes must be equal."""
import random
from vlib import lib, run, tlc, inputs
from props import api_common as ac
from props.c01 import gen_scripts
from props.c02 import first_meta

PROP = 'C03'
OWN = {'D1'}


def near_misses(base, rnd, n):
    out = []
    idxs = [i for i, c in enumerate(base) if c.isalnum()]
    rnd.shuffle(idxs)
    for i in idxs[:n]:
        c = base[i]
        if c.isdigit():
            r = str((int(c) + 1 + rnd.randrange(8)) % 10)
        elif c.isupper():
            r = chr((ord(c) - 65 + 1 + rnd.randrange(24)) % 26 + 65)
        else:
            r = chr((ord(c) - 97 + 1 + rnd.randrange(24)) % 26 + 97)
        out.append(base[:i] + r + base[i + 1:])
    out.append(base[:-1])
    out.append(base + base[-1:])
    return out


def worker(unit, emit):
    name, scripts1, scripts2, p = unit
    mod = lib.module(name)
    if not hasattr(mod, 'compact'):
        return
    rnd = random.Random('%s/%s' % (p['seed'], name))
    corp = lib.corpus(name, mod)
    bases = lib.pick_bases(name, mod, lib.distinct_compact(name, mod, corp), p['bases'], rnd, corpus_items=corp)
    emit.count('modules')
    opts = ac.option_sets(name, mod)
    xs = []
    for b in bases:
        xs.append((b, 'valid'))
        for nm in near_misses(b, rnd, p['near']):
            xs.append((nm, 'near-miss'))
    xs += [('', 'garbage'), ('0', 'garbage'), ('ABC', 'garbage'), ('12345678901234567890', 'garbage')]

    lits = [L for L in inputs.literals(mod, minlen=2, maxlen=4, cap=60) if L.isalpha() and L.isascii()][:8]

    def pairrec(x, xkind, y, how, kw):
        o = ac.opt_id(kw)
        rc = lib.call(mod.compact, x)
        rc2 = lib.call(mod.compact, y)
        same = rc['k'] == 'ret' and rc2['k'] == 'ret' and rc['t'] == 'str' and rc2['t'] == 'str' and rc['v'] == rc2['v']
        emit.count('pairs')
        if not same:
            emit.count('pairs_compact_differs')
            if rnd.random() > 0.01:
                return
        else:
            emit.count('pairs_compact_equal')
        rv = lib.call(mod.validate, x, **kw)
        rv2 = lib.call(mod.validate, y, **kw)
        evs = [ac.ev(name, 'validate', o, rv), ac.ev(name, 'compact', '', rc), ac.ev(name, 'compact2', '', rc2),
               ac.ev(name, 'validate2', o, rv2)]
        emit.trace(evs, {'m': name, 'w': y, 'x': x, 'xkind': xkind, 'how': how, 'o': o,
                         'out_x': rv['cls'] or lib.from_cps(rv['v'])[:60], 'out_y': rv2['cls'] or lib.from_cps(rv2['v'])[:60]})

    for x, xkind in xs:
        for pre, post in ((' ', ' '), ('\t', '\n'), ('\n', ''), ('', '\n'), ('　', '\xa0')):
            pairrec(x, xkind, pre + x + post, 'surround', {})
        for f in (str.lower, str.upper, str.swapcase, str.title):
            if f(x) != x:
                pairrec(x, xkind, f(x), f.__name__, {})
        # stretched spellings: a separator between all characters / in wide groups, and long padding -- where a test on the
        # raw argument (a length limit, a slice) before compact() shows
        for sep in (' ', '-', '.', ' - '):
            pairrec(x, xkind, sep.join(x), 'stretched %r' % sep, {})
            pairrec(x, xkind, sep.join(x[i:i + 4] for i in range(0, len(x), 4)), 'groups of four %r' % sep, {})
        # leading zeros dropped / added, and the alphabetic constants of the module source as prefix (country codes, aliases):
        # spellings that compact() may or may not map to the same number -- D1 only speaks when it does
        for y, how in ((x.lstrip('0'), 'leading zeros dropped'), ('0' + x, 'zero prefixed'), ('00' + x, 'two zeros prefixed')):
            if y and y != x:
                pairrec(x, xkind, y, how, {})
        for L in lits:
            pairrec(x, xkind, L + x, 'literal prefix %r' % L, {})
            if len(L) < len(x):
                pairrec(x, xkind, L + x[len(L):], 'literal overwrite %r' % L, {})
                pairrec(x, xkind, L + ' ' + x[len(L):].lstrip(), 'literal overwrite %r' % L, {})
        pairrec(x, xkind, x + ' ' * 80, 'padded right 80', {})
        pairrec(x, xkind, ' ' * 80 + x, 'padded left 80', {})
        for script in scripts1:
            for s, d in inputs.concretise(x, script, rnd, k=p['k']):
                pairrec(x, xkind, s, d, {})
        for script in scripts2:
            for s, d in inputs.concretise(x, script, rnd, k=1):
                pairrec(x, xkind, s, d, {})
        for kw in opts[1:]:
            # element strings may start with the separator character (FNC1): the canonical form under this option, prefixed by the
            # separator, with and without surrounding white space
            if kw.get('separator'):
                rk = lib.call(mod.validate, x, **kw)
                if rk['k'] == 'ret' and rk['t'] == 'str':
                    y0 = kw['separator'] + lib.from_cps(rk['v'])
                    for pre, post in ((' ', ''), ('\t', ' '), ('\u2003', '\n')):
                        pairrec(y0, xkind, pre + y0 + post, 'leading separator, surround', kw)
            for script in scripts1[::p['opt_stride']]:
                for s, d in inputs.concretise(x, script, rnd, k=1):
                    pairrec(x, xkind, s, d, kw)
    # collision search over the whole corpus (not only the picked bases): the leading letters of every documented number
    # overwritten by the module's own alphabetic constants and by the leading letters of the other documented numbers (country
    # codes and their aliases); only the spellings whose compact form collides with the number's are replayed
    heads = list(dict.fromkeys(lits + [b[:2] for b in corp if b[:2].isalpha() and b[:2].isascii()]))[:40]
    ncoll = 0
    for b in lib.distinct_compact(name, mod, corp)[:p['collide']]:
        if not (b[:1].isalpha() and b.isascii()):
            continue
        cb = lib.call(mod.compact, b)
        if cb['k'] != 'ret' or cb['t'] != 'str':
            continue
        for L in heads:
            if len(L) >= len(b) or b.upper().startswith(L.upper()) or not b[:len(L)].isalpha():
                continue
            y = L + b[len(L):]
            cy = lib.call(mod.compact, y)
            if cy['k'] == 'ret' and cy['t'] == 'str' and cy['v'] == cb['v'] and ncoll < 200:
                ncoll += 1
                emit.count('collisions')
                pairrec(b, 'valid', y, 'literal overwrite %r' % L, {})
    # corpus presentations against each other (documented spellings of the same number)
    pres = lib.pick(corp, p['pres'], rnd)
    for i, a in enumerate(pres):
        for b in pres[i + 1:i + 6]:
            pairrec(a, 'valid', b, 'corpus-pair', {})


def main():
    chk = run.Check(PROP)
    quick = chk.tier == 'quick'
    chk.mc('ApiDesign', 'MC_ApiDesign_code', workers=8, label='clean-up pipeline as the code composes it: outcome determined by compact()')
    chk.mc('ApiDesign', 'MC_ApiDesign_precheck', workers=4, expect_violation='CompactDetermined', label='hazard: a test on the raw argument before compact()')
    scripts1 = gen_scripts(chk, 'Gen_Decor1')
    scripts2 = gen_scripts(chk, 'Gen_Decor2R', simulate='num=%d' % (100 if quick else 2500), depth=3)
    p = {'seed': chk.seed, 'bases': 2 if quick else 15, 'near': 2 if quick else 6, 'k': 1 if quick else 3,
         'opt_stride': 4 if quick else 1, 'pres': 20 if quick else 200, 'collide': 150 if quick else 2000}
    units = [(name, scripts1, scripts2, p) for name, _ in lib.modules()]
    shards = chk.drive(units, worker)
    extra = run.merge_extra(shards)
    rej = chk.validate('Trace_Api', shards, own_clauses=OWN)
    chk.report(rej)
    return chk.finish(samples=first_meta(shards), distinct_nontrivial=extra.get('pairs_compact_equal', 0),
                      rule='pair (x, y): x = valid number / single-character near-miss / garbage, y = x decorated by a TLC-generated script '
                           '(separator, whitespace, look-alike, case at every position; depth 2 simulated), surrounding whitespace, case '
                           'change; non-trivial = compact(x) == compact(y) observed; 1% of the other pairs are kept so that the antecedent '
                           'is also evaluated false',
                      extra={'modules_with_compact': extra.get('modules', 0), 'pairs_tried': extra.get('pairs', 0),
                             'pairs_compact_differs': extra.get('pairs_compact_differs', 0),
                             'corpus_collisions_replayed': extra.get('collisions', 0)})


if __name__ == '__main__':
    run.main(main, PROP)
