"""C12 -- derived attributes are total and consistent on valid numbers.
Sessions per (module, valid number): every getter (discovered the way the web application discovers them)
on the canonical number and on other presentations, under several system dates; TLC judges kind (T1),
birth date vs digits with the national layouts and century rules of BirthDates.tla (T2), year/month
agreement (T3), split concatenation (T5), presentation independence (T6)."""
import json, os, random, inspect, datetime
from vlib import lib, run, tlc
from props import api_common as ac
from props.c02 import first_meta
from props.c17 import valid_bases

PROP = 'C12'
# digit positions (0-based: year pos, year len, month pos, day pos) -- used ONLY to synthesise inputs with chosen dates
POS = {'it.codicefiscale_': (0, 0, 0, 0), 'be.nn': (0, 2, 2, 4), 'be.bis': (0, 2, 2, 4), 'bg.egn': (0, 2, 2, 4), 'cn.ric': (6, 4, 10, 12), 'cu.ni': (0, 2, 2, 4),
       'cz.rc': (0, 2, 2, 4), 'sk.rc': (0, 2, 2, 4), 'dk.cpr': (4, 2, 2, 0), 'ee.ik': (1, 2, 3, 5), 'lt.asmens': (1, 2, 3, 5),
       'gr.amka': (4, 2, 2, 0), 'id.nik': (10, 2, 8, 6), 'kr.rrn': (0, 2, 2, 4), 'lv.pvn': (4, 2, 2, 0), 'mx.curp': (4, 2, 6, 8),
       'my.nric': (0, 2, 2, 4), 'no.fodselsnummer': (4, 2, 2, 0), 'pl.pesel': (0, 2, 2, 4), 'ro.cnp': (1, 2, 3, 5),
       'si.emso': (4, 3, 2, 0), 'za.idnr': (0, 2, 2, 4), 'be.ssn': (0, 2, 2, 4), 'se.personnummer': (0, 2, 2, 4)}
DATES = [(1996, 2, 29), (2000, 2, 29), (1900, 2, 29), (2001, 2, 29), (1999, 12, 31), (2000, 1, 1), (1954, 3, 1), (1953, 12, 31),
         (1980, 4, 31), (1975, 0, 0), (1988, 13, 1), (2054, 1, 1), (1854, 5, 5), (1990, 6, 15)]


def getters(mod):
    out = []
    for fn, f in inspect.getmembers(mod, inspect.isfunction):
        if f.__module__ != mod.__name__:
            continue
        if fn.startswith('get_') or fn in ('info', 'split') or fn.endswith('_type'):
            try:
                req = [p.name for p in inspect.signature(f).parameters.values() if p.default is p.empty]
            except (TypeError, ValueError):
                continue
            if req == ['number']:
                out.append(fn)
    order = {'get_birth_date': 0}
    return sorted(out, key=lambda g: (order.get(g, 1), g))


def getter_options(f):
    """Keyword options of a getter: booleans flipped, a few values for integer year windows."""
    out = []
    try:
        params = list(inspect.signature(f).parameters.values())[1:]
    except (TypeError, ValueError):
        return out
    for p_ in params:
        if isinstance(p_.default, bool):
            out.append({p_.name: not p_.default})
        elif isinstance(p_.default, int) and 'year' in p_.name:
            out += [{p_.name: y} for y in (1900, 1985, 2000, 2020)]
    return out


def with_raw_fields(mod, name, v, mraw, draw):
    """v with the raw two-digit month / day FIELDS set (values outside any calendar, e.g. 93 or 87) and the tail searched for
    a valid completion: finds numbers whose date fields a lax validator reduces silently."""
    if name not in POS or not v.isascii():
        return []
    yp, yl, mp, dp = POS[name]
    if len(v) < max(mp + 2, dp + 2):
        return []
    w = list(v)
    if mraw is not None:
        w[mp:mp + 2] = '%02d' % mraw
    if draw is not None:
        w[dp:dp + 2] = '%02d' % draw
    t = ''.join(w)
    for tail in range(0, 1000):
        for k in (1, 2, 3):
            if tail >= 10 ** k:
                continue
            u = t[:-k] + ('%0' + str(k) + 'd') % tail
            try:
                if mod.is_valid(u) is True and mod.validate(u) == u:
                    return [u]
            except Exception:
                pass
    return []


def boundary_tails(mod, v):
    """v with everything behind each cut set to 9...9 / 0...0 and the last character searched for a valid completion:
    numbers that sit on the last / first code of a registry range (where an off-by-one in a range comparison shows)."""
    out = []
    if not v.isascii() or len(v) < 4:
        return out
    for fill in '90':
        for k in range(1, len(v) - 1):
            t = v[:k] + ''.join(fill if c.isdigit() else c for c in v[k:-1])
            for d in '0123456789X':
                u = t + d
                try:
                    if u != v and u not in out and mod.is_valid(u) is True and mod.validate(u) == u:
                        out.append(u)
                        break
                except Exception:
                    pass
    return out


def with_date(mod, name, v, date, rnd):
    """v with its date digits replaced and the trailing characters searched for a valid completion."""
    if name not in POS or not v.isascii():
        return []
    yp, yl, mp, dp = POS[name]
    y, m, d = date
    w = list(v)
    ys = ('%0' + str(yl) + 'd') % (y % (10 ** yl))
    if len(v) < max(yp + yl, mp + 2, dp + 2):
        return []
    w[yp:yp + yl] = ys
    out = []
    for moff in (0, 20, 40, 50):
        w[mp:mp + 2] = '%02d' % ((m + moff) % 100)
        w[dp:dp + 2] = '%02d' % d
        t = ''.join(w)
        found = False
        for tail in range(0, 1000):
            for k in (1, 2, 3):
                u = t[:-k] + ('%0' + str(k) + 'd') % (tail % 10 ** k) if k <= len(t) else t
                try:
                    if mod.is_valid(u) is True and mod.validate(u) == u:
                        out.append(u)
                        found = True
                        break
                except Exception:
                    pass
                if tail >= 10 ** k:
                    continue
            if found:
                break
        if len(out) >= 2:
            break
    return out


def rec(r):
    out = {'k': r['k'], 't': r['t'], 'date': [], 'text': r['v'] if r['t'] == 'str' else [], 'int': 0, 'parts': [], 'canon': r['j'] or lib.from_cps(r['v']),
           'mro': r['mro']}
    if r['k'] == 'ret' and r['j']:
        j = json.loads(r['j'])
        if isinstance(j, dict):
            if 'date' in j:
                out['date'] = j['date']
            if 'datetime' in j:
                out['date'] = j['datetime'][:3]
                out['t'] = 'date'
            if 'int' in j:
                out['int'] = int(j['int']) if abs(int(j['int'])) < 2 ** 31 else 0
            for key in ('tuple', 'list'):
                if key in j and all(isinstance(x, str) for x in j[key]):
                    out['parts'] = [lib.cps(x) for x in j[key]]
    if r['k'] == 'exc':
        out['canon'] = 'EXC ' + r['cls']
    return out


def worker(unit, emit):
    name, p = unit
    mod = lib.module(name)
    gs = getters(mod)
    if not gs:
        return
    rnd = random.Random('%s/%s' % (p['seed'], name))
    vals = valid_bases(name, mod, p['bases'], rnd, p['synth'])
    extra = []
    for v in vals[:p['date_bases']]:
        for date in DATES:
            extra += with_date(mod, name, v, date, rnd)
    for v in vals[:2]:
        for mraw, draw in ((None, 32), (None, 39), (None, 72), (None, 87), (None, 94), (13, None), (19, None), (33, None), (53, None), (73, None),
                           (93, None), (0, None), (None, 0)):
            extra += with_raw_fields(mod, name, v, mraw, draw)
    for v in vals[:2]:
        extra += boundary_tails(mod, v)
    # unknown registry prefixes
    if name == 'imsi':
        extra += [x for x in ('467071234567890', '999991234567890', '001011234567890', '310599123456789') if mod.is_valid(x)]
    if name == 'mac':
        extra += [x for x in ('02:00:00:12:34:56', 'ff:ff:ff:ff:ff:ff', '00:1b:c5:ff:ff:ff', '70:b3:d5:ff:ff:ff') if mod.is_valid(x)]
    vals = list(dict.fromkeys(vals + extra))
    emit.count('pairs', len(gs))
    clocks = [None] + (ac.CLOCKS[:p['clocks']] if name in ac.CLOCK_MODULES else [])
    for v in vals:
        pres = [v]
        try:
            if hasattr(mod, 'format'):
                pres.append(mod.format(v))
        except Exception:
            pass
        pres += [' ' + v + '\n', v.lower() if v.lower() != v else v.upper()]
        for clk in clocks:
            evs = []

            def run_all():
                for x in dict.fromkeys(pres):
                    if x != v:
                        try:
                            if mod.validate(x) != v:
                                continue
                        except Exception:
                            continue
                    for g in gs:
                        r = lib.call(getattr(mod, g), x)
                        evs.append({'m': name, 'g': g, 'v': lib.cps(v), 'x': lib.cps(x), 'r': rec(r), 'site': r['site'], 'opt': False})
                        # the getter's own keyword options (century windows, allow_future, ...): totality only
                        if x == v:
                            for kw in getter_options(getattr(mod, g)):
                                r2 = lib.call(getattr(mod, g), x, **kw)
                                evs.append({'m': name, 'g': g, 'v': lib.cps(v), 'x': lib.cps(x), 'r': rec(r2), 'site': r2['site'], 'opt': True})
            if clk:
                with ac.clock(clk):
                    if mod.is_valid(v) is not True:
                        continue
                    run_all()
            else:
                run_all()
            sites = [e.pop('site') for e in evs]
            bad = [s for s in sites if s]
            emit.trace(evs, {'m': name, 'w': v, 'how': 'getters %s clock %s' % (gs, clk), 'site': bad[0] if bad else '',
                             'results': dict((e['g'], e['r']['canon'][:60]) for e in evs[:len(gs)])})
            emit.count('getter_calls', len(evs))


def main():
    chk = run.Check(PROP)
    quick = chk.tier == 'quick'
    p = {'seed': chk.seed, 'bases': 25 if quick else 300, 'synth': 6 if quick else 60, 'date_bases': 2 if quick else 10, 'clocks': 2 if quick else 6}
    units = [(name, p) for name, _ in lib.modules()]
    shards = chk.drive(units, worker)
    extra = run.merge_extra(shards)
    # T6 (getters of every presentation agree with getters of the canonical number) goes beyond the letter of the
    # property: its rejections are recorded as observations in the evidence, never as violations
    rej = chk.validate('Trace_Getters', shards, own_clauses={'T1', 'T2', 'T3', 'T5', 'T6'})
    obs = [r for r in rej if r['clause'] == 'T6']
    chk.report([r for r in rej if r['clause'] != 'T6'])
    chk.cov['observations_T6_presentation_dependence'] = sorted(set('%s %r' % (r['meta'].get('m'), r['meta'].get('w')) for r in obs))[:40]
    return chk.finish(samples=first_meta(shards), distinct_nontrivial=extra.get('getter_calls', 0),
                      rule='per (module, getter): valid numbers = corpus + synthesised neighbours + numbers synthesised for chosen dates (leap days in and '
                           'out of leap years, century boundaries, month/day 00 or 13/31, unknown registry prefixes), each in canonical, formatted, '
                           'padded and case-changed presentation, under several system dates for the clock-reading modules',
                      extra={'module_getter_pairs': extra.get('pairs', 0), 'getter_calls': extra.get('getter_calls', 0)})


if __name__ == '__main__':
    run.main(main, PROP)
