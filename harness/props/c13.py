"""C13 -- results are independent of call history, ordering, aliasing and threads.

MC      Runtime.tla (caches x threads x aliasing x faults): the code's model satisfies PureResults /
        KeyInjective / CacheMonotone for all interleavings; every hazard variant (publish before fill,
        basename key, aliased property dicts, cache before membership test, publish-before-fill + fault)
        must be refuted by TLC.
GEN     TLC generates call histories (Gen_History.tla) and hook-level thread schedules (Gen_Sched.tla).
DRIVE   histories are executed in one long-lived process per history, every returned container is
        mutated in place; each call's result is paired with the result of the same call made first
        thing in a pristine interpreter (H1).  Schedules are replayed with the blocking hook scheduler,
        and 16 barrier-released threads make first use of registries / country modules free-running;
        hook events are recorded.
TRACE   Trace_History.tla (H1) and Trace_Runtime.tla (cache steps A1-A4) judge the recordings."""
import inspect, json, os, random, subprocess, sys, itertools
from concurrent.futures import ThreadPoolExecutor
from vlib import lib, run, tlc
from props import api_common as ac

PROP = 'C13'
RUNNER = os.path.join(lib.VERIF, 'harness', 'c13_runner.py')


def concrete_calls(rnd):
    """Call classes -> concrete (module, function, args) drawn from the corpus."""
    lib.load_stdnum()

    def c(mod, n=40):
        m = lib.module(mod)
        return lib.pick(lib.corpus(mod, m), n, rnd) or ['0']
    isbns = [x for x in c('isbn') if len(x) >= 10]
    out = {
        'imsi_info': [('imsi', 'info', [x]) for x in c('imsi')] + [('imsi', 'split', [x]) for x in c('imsi', 10)],
        'mac_info': [('mac', 'get_manufacturer', [x]) for x in c('mac')] + [('mac', 'get_oui', [x]) for x in c('mac', 8)],
        'isbn_format': [('isbn', 'format', [x]) for x in isbns],
        'isbn_split': [('isbn', 'split', [x]) for x in isbns],
        'iban_validate': [('iban', 'validate', [x]) for x in c('iban', 80)],
        'euvat_validate': [('eu.vat', 'validate', [x]) for x in c('eu.vat', 120)],
        'euvat_guess': [('eu.vat', 'guess_country', [x]) for x in c('eu.vat', 30)] + [('eu.vat', 'guess_country', ['00449544B01'])],
        'vatin_validate': [('vatin', 'validate', [x]) for x in c('vatin', 60)] + [('vatin', 'validate', ['GB980780684']), ('eu.vat', 'validate', ['GB980780684']),
                                                                                 ('eu.vat', 'validate', ['XI980780684']), ('eu.vat', 'validate', ['EL094259216'])],
        'be_iban_info': [('be.iban', 'info', [x]) for x in c('be.iban')] + [('be.iban', 'to_bic', [x]) for x in c('be.iban', 10)],
        'cfi_info': [('cfi', 'info', [x]) for x in c('cfi')],
        'gs1_info': [('gs1_128', 'info', [x]) for x in c('gs1_128')] + [('gs1_128', 'validate', [x]) for x in c('gs1_128', 10)],
        'plz_info': [('at.postleitzahl', 'info', [x]) for x in c('at.postleitzahl')],
        'nace_info': [('eu.nace', 'info', [x]) for x in c('eu.nace')] + [('eu.nace', 'get_label', [x]) for x in c('eu.nace', 10)],
        'cc_module': [('util', 'get_cc_module', [cc, nm]) for cc in ('nl', 'EL', 'gr', 'is', 'in', 'xx', 'GB', 'be') for nm in ('vat', 'iban', 'nonexistent')],
        'nz_bank_info': [('nz.bankaccount', 'info', [x]) for x in c('nz.bankaccount')],
        'cz_bank_info': [('cz.bankaccount', 'info', [x]) for x in c('cz.bankaccount')],
        'numdb_info': [('numdb', 'info:' + reg, [q]) for reg, q in (('be/banks', '001'), ('cz/banks', '0100'), ('nz/banks', '010001'),
                                                                     ('isbn', '9789024538270'), ('oui', '0000AA'), ('iban', 'NL'), ('us/ein', '46'))],
        'at_tin_info': [('at.tin', 'info', [x]) for x in c('at.tin')],
        'us_tin_guess': [('us.tin', 'guess_type', [x]) for x in c('us.tin')],
        'my_nric': [('my.nric', 'get_birth_place', [x]) for x in c('my.nric')],
        'cn_ric': [('cn.ric', 'get_birth_place', [x]) for x in c('cn.ric')],
    }
    names = [n for n, _ in lib.modules()]
    anyv, anyf = [], []
    for n in rnd.sample(names, 60):
        m = lib.module(n)
        cs = lib.corpus(n, m)
        if cs:
            anyv.append((n, 'validate', [cs[0]]))
            if hasattr(m, 'format'):
                anyf.append((n, 'format', [cs[0]]))
    out['validate_any'] = anyv
    out['format_any'] = anyf or anyv
    return out


def run_runner(job, timeout=120):
    """One fresh interpreter executing a job (JSON on stdin, JSON on stdout)."""
    env = dict(os.environ)
    env.update({'PYTHONPATH': os.path.join(lib.VERIF, 'harness') + ':' + lib.REPO, 'STDNUM_VERIF': '1', 'PYTHONHASHSEED': '0',
                'PYTHONDONTWRITEBYTECODE': '1'})
    p = subprocess.run(['/venv/bin/python', RUNNER], input=json.dumps(job).encode(), stdout=subprocess.PIPE, stderr=subprocess.PIPE,
                       env=env, timeout=timeout)
    if p.returncode != 0:
        raise run.MachineryError('runner failed: %s' % p.stderr.decode()[-1500:])
    return json.loads(p.stdout.decode())


def sibling_arguments():
    """(module, function) -> [(x, y)]: arguments with a common 6-character prefix that belong to different entries of the
    module's registry (read with the independent parser)."""
    from vlib import ndb
    out = {}
    try:
        with open(os.path.join(lib.REPO, 'stdnum', 'oui.dat'), encoding='utf-8') as fh:
            tree, _ = ndb.parse_text(fh.read())
        groups = {}

        def walk(entries, prefix):
            for e in entries:
                lo = prefix + ''.join(map(chr, e['low']))
                if len(lo) > 6 and dict(e['props']).get('o'):
                    groups.setdefault(lo[:6], []).append(lo)
                walk(e.get('kids', []), lo)
        walk(tree, '')
        pairs = []
        for k in sorted(groups):
            g = sorted(set(groups[k]))
            if len(g) >= 2:
                mk = lambda h: ':'.join((h + '0' * 12)[:12][i:i + 2] for i in range(0, 12, 2)).lower()
                pairs.append((mk(g[0]), mk(g[-1])))
            if len(pairs) >= 3:
                break
        out[('mac', 'get_manufacturer')] = pairs
    except Exception:
        pass
    return out


def main():
    chk = run.Check(PROP)
    quick = chk.tier == 'quick'
    rnd = random.Random(chk.seed)
    # ---- MC
    if quick:
        chk.mc('Runtime', 'MC_Runtime_code2', workers=16, heap='8g', label='code model, 2 threads x 2 calls, faults',
               must_cover=['GEnter', 'GCheck', 'GParse', 'GFail', 'GStore', 'GUse', 'VEnter', 'VMember', 'VCache', 'VImport', 'VAttach', 'VGetattr', 'Return'])
    else:
        chk.mc('Runtime', 'MC_Runtime_code', workers=16, heap='12g', label='code model, 3 threads x 2 calls, faults', timeout=3000)
    for v, inv in (('StoreFirst', 'PureResults'), ('BaseKey', 'KeyInjective'), ('AliasProps', 'PureResults'),
                   ('CacheBeforeMember', 'PureResults'), ('StoreFirstFault', 'PureResults'), ('ImportWindow', 'PureResults')):
        chk.mc('Runtime', 'MC_Runtime_' + v, workers=8, expect_violation=inv, label='hazard variant ' + v)
    # ---- Apalache: PureResults as consequence of an INDUCTIVE invariant of the code model (2 threads, any number of calls);
    # the hazard variant (code before fix 772c586) must make the inductive step fail.  Symbolic complement of the bounded
    # TLC runs above; when apalache-mc cannot be run the stage is recorded as unavailable and nothing is claimed from it.
    if not os.environ.get('VERIF_SKIP_MC'):
        apa = []
        for mod_, init_, inv_, len_, want in (('MC_Runtime_apa', 'Init', 'IndInv', 0, 'NoError'), ('MC_Runtime_apa', 'IndInv', 'IndInv', 1, 'NoError'),
                                            ('MC_Runtime_apa', 'IndInv', 'PureResults', 0, 'NoError'), ('MC_Runtime_apa_neg', 'IndInv', 'IndInv', 1, 'Error')):
            got, _txt = tlc.apalache(mod_, init_, inv_, len_, chk.work)
            apa.append({'module': mod_, 'init': init_, 'inv': inv_, 'length': len_, 'expected': want, 'outcome': got})
            if not got.startswith('unavailable') and got != want:
                raise run.MachineryError('Apalache: %s --init=%s --inv=%s --length=%d gave %s, expected %s' % (mod_, init_, inv_, len_, got, want))
        chk.cov['stages'].append({'stage': 'APALACHE', 'spec': 'Runtime', 'cfg': 'MC_Runtime_apa', 'label': 'inductive invariant IndInv => PureResults, unbounded calls', 'runs': apa})
        if any(a['outcome'].startswith('unavailable') for a in apa):
            chk.notes.append('Apalache stage unavailable: ' + '; '.join(a['outcome'] for a in apa if a['outcome'].startswith('unavailable'))[:300])
    # ---- GEN histories
    nh = 120 if quick else 2500
    rg = tlc.run('Gen_History', workdir=chk.work, workers=1, simulate='num=%d' % nh, depth=9, seed=chk.seed)
    hists = []
    for ln in rg.prints:
        v = tlc.parse_value(ln)
        if v and v[0] == 'HIST':
            hists.append(v[1])
    if len(hists) < nh:
        raise run.MachineryError('history generator produced %d histories\n%s' % (len(hists), rg.out[-1500:]))
    calls = concrete_calls(rnd)
    jobs = []
    for h in hists:
        seq = []
        for step in h:
            cands = calls.get(step['c']) or calls['validate_any']
            mod, fn, args = rnd.choice(cands)
            seq.append({'mod': mod, 'fn': fn, 'args': args, 'mutate': bool(step['mutate'])})
        jobs.append({'kind': 'history', 'calls': seq})
    # ---- deterministic histories on top of the generated ones (filled in below, once the first-use calls are listed)
    nst = 16 if quick else 300
    firstuse = [('mac', 'get_manufacturer', ['00:00:AA:12:34:56']), ('isbn', 'format', ['9789024538270']), ('imsi', 'info', ['429011234567890']),
                ('be.iban', 'info', ['BE32 123-4567890-02']), ('eu.vat', 'validate', ['NL4495445B01']), ('eu.vat', 'validate', ['EL094259216']),
                ('vatin', 'validate', ['BE0428759497']), ('iban', 'validate', ['NO9386011117947']), ('cz.bankaccount', 'info', ['34278-0727558021/0100']),
                ('nz.bankaccount', 'info', ['01-902-0068389-00']), ('cfi', 'info', ['ELNUFR']), ('at.postleitzahl', 'info', ['5090']),
                ('eu.nace', 'info', ['62.01']), ('us.ein', 'get_campus', ['04-2103594']), ('my.nric', 'get_birth_place', ['770305-02-1234']),
                ('cn.ric', 'get_birth_place', ['360426199101010071']), ('eu.vat', 'validate', ['XI980780684']), ('at.tin', 'info', ['59-119/9013']),
                # an IBAN that only the NATIONAL validator rejects (bad CCC check digits): a lookup that answers too early shows
                ('iban', 'validate', ['ES2121000418450200051331'])]
    # (d) hidden module state: for EVERY number module  A, B1, A, B2, A, ...  where A = validate(documented number) and the Bs
    #     are all its public one-argument functions on the number, the number cut by one and by two characters (odd and even
    #     lengths).  Results that depend on the arguments only make every A equal to the first one (judged within the job).
    aba = []
    for name_, mod_ in lib.modules():
        corp_ = lib.corpus(name_, mod_)
        if not corp_:
            continue
        try:
            x0 = mod_.compact(corp_[0])
        except Exception:
            x0 = corp_[0]
        a_call = {'mod': name_, 'fn': 'validate', 'args': [x0], 'mutate': False}
        seq = [a_call]
        for fn_, f_ in sorted(inspect.getmembers(mod_, inspect.isfunction)):
            if fn_.startswith('_') or fn_.startswith('check_') or fn_.startswith('search_') or f_.__module__ != mod_.__name__:
                continue
            try:
                req = [q.name for q in inspect.signature(f_).parameters.values() if q.default is q.empty and q.kind in (q.POSITIONAL_ONLY, q.POSITIONAL_OR_KEYWORD)]
            except (TypeError, ValueError):
                continue
            if len(req) != 1:
                continue
            for arg in (x0, x0[:-1], x0[:-2]):
                seq.append({'mod': name_, 'fn': fn_, 'args': [arg], 'mutate': False})
                seq.append(a_call)
        aba.append(seq)
    for i in range(0, len(aba), 12):
        jobs.append({'kind': 'history', 'selfref': True, 'calls': [c_ for seq in aba[i:i + 12] for c_ in seq]})
    # (a) aliasing: every first-use call, its result mutated in place, the same call again -- and a call of the same function
    #     on a sibling argument in between
    for m_, f_, a_ in firstuse:
        jobs.append({'kind': 'history', 'calls': [{'mod': m_, 'fn': f_, 'args': a_, 'mutate': True}, {'mod': m_, 'fn': f_, 'args': a_, 'mutate': False}]})
    #     ... and lookups that leave an UNMATCHED remainder (a part without properties): their empty dict must be the caller's own too
    for m_, f_, a_ in (('at.postleitzahl', 'info', ['0000']), ('imsi', 'split', ['999991234567890']), ('be.iban', 'info', ['BE71 9990 0000 0069']),
                       ('numdb', 'info:isbn', ['9799999999999']), ('numdb', 'info:oui', ['FFFFFF']), ('cfi', 'info', ['ZZZZZZ']), ('mac', 'get_oui', ['ff:ff:ff:00:00:00'])):
        jobs.append({'kind': 'history', 'calls': [{'mod': m_, 'fn': f_, 'args': a_, 'mutate': True}, {'mod': m_, 'fn': f_, 'args': a_, 'mutate': False},
                                                  {'mod': firstuse[2][0], 'fn': firstuse[2][1], 'args': firstuse[2][2], 'mutate': False},
                                                  {'mod': firstuse[11][0], 'fn': firstuse[11][1], 'args': firstuse[11][2], 'mutate': False}]})
    #     ... and the aliases of the country dispatchers in both orders: what XI / EL leave in a cache must not answer GB / GR
    for a_, b_ in ((['XI980780684'], ['GB980780684']), (['EL094259216'], ['GR094259216']), (['GB980780684'], ['XI980780684']),
                   (['NL4495445B01'], ['nl4495445b01'])):
        for m_ in ('eu.vat', 'vatin'):
            jobs.append({'kind': 'history', 'calls': [{'mod': m_, 'fn': 'validate', 'args': a_, 'mutate': False}, {'mod': m_, 'fn': 'validate', 'args': b_, 'mutate': False},
                                                      {'mod': m_, 'fn': 'validate', 'args': a_, 'mutate': False}]})
    # (e) the system date is an argument too: numbers born next year, judged two years from now -- by modules imported today
    #     ('after') and by a fresh interpreter started on that day ('before'); a date captured at import time shows
    import datetime as _dt
    from props import c12
    yr = _dt.date.today().year
    clock_calls = []
    with ac.clock((yr + 3, 1, 1)):
        for nm in ac.CLOCK_MODULES:
            if nm not in c12.POS:
                continue
            mod_ = lib.module(nm)
            corp_ = lib.corpus(nm, mod_)
            try:
                v0 = mod_.validate(corp_[0])
            except Exception:
                continue
            yp, yl, mp, dp = c12.POS[nm]
            if not v0.isascii() or len(v0) < max(yp + yl, mp + 2, dp + 2) + 2:
                continue
            for (y_, m_, d_) in ((yr + 1, 1, 15), (yr - 1, 6, 15)):
                w_ = list(v0)
                w_[yp:yp + yl] = ('%0' + str(yl) + 'd') % (y_ % 10 ** yl)
                w_[mp:mp + 2] = '%02d' % m_
                w_[dp:dp + 2] = '%02d' % d_
                t_ = ''.join(w_)
                for tail in range(100):          # every pair of final digits: whichever one is right on that day
                    clock_calls.append({'mod': nm, 'fn': 'validate', 'args': [t_[:-2] + '%02d' % tail], 'mutate': False})
                if y_ == yr + 1:
                    # ... and what is derived from them (the century of a two-digit year is chosen relative to today)
                    for g_ in c12.getters(mod_)[:3]:
                        for tail in range(100):
                            clock_calls.append({'mod': nm, 'fn': g_, 'args': [t_[:-2] + '%02d' % tail], 'mutate': False})
    clock_pair = None
    if clock_calls:
        clock_pair = (len(jobs), len(jobs) + 1)
        jobs.append({'kind': 'clock', 'calls': clock_calls, 'date': [yr + 2, 6, 1], 'when': 'before', 'selfref': True})
        jobs.append({'kind': 'clock', 'calls': clock_calls, 'date': [yr + 2, 6, 1], 'when': 'after', 'selfref': True})
    # (b) sibling arguments: two numbers that share a long prefix but fall into different registry entries (a lookup memoised
    #     under a truncated key answers the second one with the first one's entry); taken from the registry files themselves
    for (m_, f_), pairs in sorted(sibling_arguments().items()):
        for x, y in pairs:
            jobs.append({'kind': 'history', 'calls': [{'mod': m_, 'fn': f_, 'args': [x], 'mutate': False}, {'mod': m_, 'fn': f_, 'args': [y], 'mutate': False},
                                                      {'mod': m_, 'fn': f_, 'args': [x], 'mutate': False}]})
    # (c) first use of the clean-up table by several threads at once, each with a different kind of look-alike character
    lookalike = [('isbn', 'validate', ['978\u20130\u2013471\u201311709\u20134']), ('isbn', 'validate', ['\uff19\uff17\uff18\uff10\uff14\uff17\uff11\uff11\uff11\uff17\uff10\uff19\uff14']),
                 ('nl.bsn', 'validate', ['1112\u2024222\u202433']), ('ean', 'validate', ['\U0001d7d5\U0001d7d1\U0001d7d3\U0001d7cf\U0001d7d1\U0001d7d3\U0001d7d1\U0001d7d5']),
                 ('iban', 'validate', ['GR16\u30000110\u30001050\u30000000\u300010547023795'])]
    for rep in range(12 if quick else 60):
        jobs.append({'kind': 'threads', 'n': 10, 'calls': None, 'schedule': None,
                     'per_thread': [[{'mod': m_, 'fn': f_, 'args': a_}] for m_, f_, a_ in (lookalike * 2)]})
    for sline in (single if False else []):
        pass
    for i in range(nst):
        k = 1 + (i % 3)
        sel = rnd.sample(firstuse, k)
        jobs.append({'kind': 'threads', 'n': 16, 'calls': [{'mod': m, 'fn': f, 'args': a} for m, f, a in sel], 'schedule': None})
    rs = tlc.run('Gen_Sched', workdir=chk.work, workers=1)
    scheds = [tlc.parse_value(ln)[1] for ln in rs.prints if ln.startswith('<<"SCHED"') or ln.startswith('<< "SCHED"')]
    if len(scheds) != 70:
        raise run.MachineryError('schedule generator produced %d schedules (expected 70)\n%s' % (len(scheds), rs.out[-1000:]))
    chk.cov['states'] += rs.distinct
    chk.cov['transitions'] += rs.generated
    sched_calls = firstuse[:4] + [firstuse[18]] if quick else firstuse
    for call in sched_calls:
        for s in (scheds if not quick else scheds[::3]):
            jobs.append({'kind': 'threads', 'n': 2, 'calls': [{'mod': call[0], 'fn': call[1], 'args': call[2]}], 'schedule': s})
    # ---- line-granular schedules (sys.settrace scheduler, independent of the hooks): all schedules with <= 2 preemptions
    rl = tlc.run('Gen_LineSched', workdir=chk.work, workers=1)
    lscheds = []
    for ln in rl.prints:
        v = tlc.parse_value(ln)
        if v and v[0] == 'LSCHED' and v[1] not in lscheds:
            lscheds.append(v[1])
    if len(lscheds) < 100:
        raise run.MachineryError('line schedule generator produced %d schedules\n%s' % (len(lscheds), rl.out[-1000:]))
    chk.cov['states'] += rl.distinct
    chk.cov['transitions'] += rl.generated
    line_calls = [firstuse[0], firstuse[1], firstuse[4], firstuse[16], firstuse[18]] if quick else firstuse
    # quick: every schedule with a single preemption (one thread stopped after k lines, the other runs to completion), a sample of the rest
    single = [x for x in lscheds if sum(1 for a, b in zip(x, x[1:]) if a != b) <= 2]
    others = [x for x in lscheds if x not in single]
    for sline in (single if quick else lscheds):
        jobs.append({'kind': 'threads', 'n': 2, 'calls': None, 'schedule': None, 'lines': sline,
                     'per_thread': [[{'mod': lookalike[0][0], 'fn': lookalike[0][1], 'args': lookalike[0][2]}],
                                    [{'mod': lookalike[1][0], 'fn': lookalike[1][1], 'args': lookalike[1][2]}]]})
    for call in line_calls:
        for sline in (single + others[::6] if quick else lscheds):
            jobs.append({'kind': 'threads', 'n': 2, 'calls': [{'mod': call[0], 'fn': call[1], 'args': call[2]}], 'schedule': None, 'lines': sline})
    # ---- import windows: the second thread makes the same first call while the first thread's import of the country module
    # has run the module body but not yet set the attribute on the package (see findings/import_race_demo.py)
    for call, gate in ((firstuse[16], 'stdnum.gb.vat'), (firstuse[6], 'stdnum.be.vat'), (('eu.vat', 'validate', ['BE0428759497']), 'stdnum.be.vat'),
                       (firstuse[18], 'stdnum.es.iban'), (firstuse[7], 'stdnum.no.iban')):
        jobs.append({'kind': 'gate', 'calls': [{'mod': call[0], 'fn': call[1], 'args': call[2]}], 'gate': gate})
        # ... and while the first thread is still INSIDE the module body (module in sys.modules, marked as initialising)
        jobs.append({'kind': 'gate', 'calls': [{'mod': call[0], 'fn': call[1], 'args': call[2]}], 'gate': gate, 'gate_at': 'body'})
    # ---- run the jobs, each in its own interpreter
    with ThreadPoolExecutor(max_workers=16) as ex:
        outs = list(ex.map(run_runner, jobs))
    # ---- fresh-process oracle: each distinct call, first thing in a pristine interpreter
    distinct = {}
    for job, o in zip(jobs, outs):
        if job.get('selfref'):
            continue
        for r in o['results']:
            distinct.setdefault(json.dumps([r['mod'], r['fn'], r['args']]), None)
    keys = sorted(distinct)
    fresh_jobs = [{'kind': 'fresh', 'calls': [dict(zip(('mod', 'fn', 'args'), json.loads(k)))]} for k in keys]
    with ThreadPoolExecutor(max_workers=16) as ex:
        fouts = list(ex.map(run_runner, fresh_jobs))
    for k, fo in zip(keys, fouts):
        distinct[k] = fo['results'][0]['r']
    # ---- events
    hev, hidx, rev, ridx = [], [], [], []
    nsched_timeouts = 0
    clock_before = {}
    if clock_pair:
        for r in outs[clock_pair[0]]['results']:
            clock_before[json.dumps([r['mod'], r['fn'], r['args']])] = r['r']
    for ji, (job, o) in enumerate(zip(jobs, outs), 1):
        first_in_job = dict(clock_before) if job['kind'] == 'clock' else {}
        for r in o['results']:
            k = json.dumps([r['mod'], r['fn'], r['args']])
            if job.get('selfref'):
                first_in_job.setdefault(k, r['r'])
                fresh_r = first_in_job[k]
            else:
                fresh_r = distinct[k]
            hev.append({'r': r['r'], 'fresh': fresh_r})
            hidx.append({'m': r['mod'], 'w': '%s.%s(%s)' % (r['mod'], r['fn'], ', '.join(map(repr, r['args']))), 'how': '%s job %d step %d%s' % (job['kind'], ji, r['step'], ' thread ' + r.get('th', '') if r.get('th') else ''),
                         'site': '', 'got': r['r'][:300], 'fresh': fresh_r[:300],
                         'history': [(c['mod'], c['fn'], c['args'], c.get('mutate')) for c in (job['calls'] or [x for t in job.get('per_thread', []) for x in t])][:10]})
        nsched_timeouts += o.get('timeouts', 0)
        for e in o.get('hooklog', []):
            rev.append(dict(e, run=ji))
            ridx.append({'m': e['cache'], 'w': '%s %s %s by %s' % (e['cache'], e['ev'], e['key'], e['th']), 'how': '%s job %d' % (job['kind'], ji), 'site': ''})

    def shard(name, evs, idx):
        ep, ip = os.path.join(chk.work, name + '.ndjson'), os.path.join(chk.work, name + '.index')
        with open(ep, 'w') as fh, open(ip, 'w') as ih:
            for t, (e, m) in enumerate(zip(evs, idx), 1):
                fh.write(json.dumps(dict(e, tid=t)) + '\n')
                ih.write(json.dumps([t, m]) + '\n')
        return {'events': ep, 'index': ip, 'n_events': len(evs), 'n_traces': len(evs)}
    rej = chk.validate('Trace_History', [shard('hist', hev, hidx)], label='H1: history/threads vs pristine interpreter')
    chk.report(rej)
    rej = chk.validate('Trace_Runtime', [shard('hooks', rev, ridx)], heap='4g', label='cache steps from hook events')
    chk.report(rej)
    if not rev:
        raise run.MachineryError('no hook events recorded: the STDNUM_VERIF hooks are not active')
    chk.assumptions += ['CPython GIL and import lock: dict get/set are atomic', 'PYTHONHASHSEED fixed (0) in every interpreter: set iteration order is a process '
                        'configuration, not a history', 'races inside regions without hooks are seen only if the free-running stress hits them']
    return chk.finish(samples=[hidx[0], hidx[len(hidx) // 2], ridx[0]], distinct_nontrivial=len(hev) + len(rev),
                      rule='H1 events: every call of every TLC-generated history (8 calls over 23 call classes, returned containers mutated in place), of '
                           '16-thread barrier-released first-use rounds and of replayed 2-thread schedules (all 70 interleavings of 4 hook points each), '
                           'paired with the same call in a pristine interpreter; A1-A4 events: every hook event of those processes',
                      extra={'import_window_jobs': len([j for j in jobs if j['kind'] == 'gate']), 'import_windows_reached': len([o for o in outs if o.get('gate_reached')]), 'histories': len(hists), 'thread_rounds': nst, 'schedules_replayed': len([j for j in jobs if j.get('schedule')]), 'line_schedules_replayed': len([j for j in jobs if j.get('lines')]),
                             'line_steps_granted': sum(o.get('line_steps', 0) for o in outs),
                             'distinct_calls_with_fresh_oracle': len(keys), 'h1_events': len(hev), 'hook_events': len(rev),
                             'schedule_timeouts': nsched_timeouts})


if __name__ == '__main__':
    run.main(main, PROP)
