"""Drivers shared by the API-contract properties (C01 C02 C03 C04 C15): option bindings, the
clock shim, and the recording of session steps.  Recording only -- no verdicts here."""
import datetime as _real_datetime, inspect, json, types
from vlib import lib, inputs

# documented keyword options of validate()/is_valid() that are not plain booleans
OPTION_VALUES = {
    'at.tin': {'office': [None, 'Bruck Eisenstadt Oberwart', 'Wien 1/23']},
    'de.handelsregisternummer': {'company_form': [None, 'GmbH', 'AG']},
    'de.stnr': {'region': [None, 'Sachsen', 'Bayern', 'Berlin']},
    'gs1_128': {'separator': ['', '\x1d', '|']},
    'mac': {'validate_manufacturer': [None, True, False]},
    'luhn': {'alphabet': ['0123456789', '0123456789ABCDEF']},
    'iso7064.mod_37_2': {'alphabet': ['0123456789ABCDEFGHIJKLMNOPQRSTUVWXYZ*', '0123456789X']},
    'iso7064.mod_37_36': {'alphabet': ['0123456789ABCDEFGHIJKLMNOPQRSTUVWXYZ', '0123456789']},
    'damm': {'table': [None]},
}


def option_sets(name, mod, fn='validate'):
    """List of kwargs dicts: the default call plus each documented option varied on its own
    (and all booleans flipped together)."""
    f = getattr(mod, fn)
    try:
        params = list(inspect.signature(f).parameters.values())[1:]
    except (TypeError, ValueError):
        return [{}]
    out = [{}]
    flips = {}
    for p in params:
        if isinstance(p.default, bool):
            out.append({p.name: not p.default})
            flips[p.name] = not p.default
        elif name in OPTION_VALUES and p.name in OPTION_VALUES[name]:
            for v in OPTION_VALUES[name][p.name]:
                if v != p.default:
                    out.append({p.name: v})
    if len(flips) > 1:
        out.append(flips)
    return out


def opt_id(kw):
    return json.dumps(kw, sort_keys=True, ensure_ascii=True) if kw else ''


def accepts(fn, kw):
    try:
        ps = inspect.signature(fn).parameters
    except (TypeError, ValueError):
        return not kw
    return all(k in ps for k in kw)


# ---- clock -------------------------------------------------------------------------------------

CLOCK_MODULES = ('be.nn', 'be.bis', 'be.ssn', 'dk.cpr', 'gs1_128', 'kr.rrn', 'no.fodselsnummer', 'ro.onrc',
                 'se.personnummer', 'sg.uen', 'za.idnr', 'lt.asmens', 'ee.ik', 'cz.rc', 'sk.rc', 'bg.egn')


class _Clock(object):
    """Stands in for the `datetime` module inside a stdnum module; date.today() is settable."""

    def __init__(self, today):
        real = _real_datetime

        class date(real.date):
            @classmethod
            def today(cls):
                return real.date(*today)

        class datetime(real.datetime):
            @classmethod
            def now(cls, tz=None):
                return real.datetime(today[0], today[1], today[2], 12, 0, 0)

            @classmethod
            def today(cls):
                return real.datetime(today[0], today[1], today[2], 12, 0, 0)

            @classmethod
            def utcnow(cls):
                return real.datetime(today[0], today[1], today[2], 12, 0, 0)
        self.date = date
        self.datetime = datetime

    def __getattr__(self, name):
        return getattr(_real_datetime, name)


class clock(object):
    """Context manager: every stdnum module that imported `datetime` sees the given date."""

    def __init__(self, today):
        self.today = today
        self.saved = []

    def __enter__(self):
        import sys
        shim = _Clock(self.today)
        for mname, m in list(sys.modules.items()):
            if mname.startswith('stdnum') and m is not None and getattr(m, 'datetime', None) is _real_datetime:
                self.saved.append(m)
                m.datetime = shim
        return self

    def __exit__(self, *a):
        for m in self.saved:
            m.datetime = _real_datetime
        return False


CLOCKS = [(1999, 12, 31), (2000, 1, 1), (2024, 2, 29), (2099, 12, 31), (1970, 1, 1), (2038, 1, 19)]


# ---- recording session steps -----------------------------------------------------------------------

def ev(name, a, o, r, x=None):
    e = {'m': name, 'a': a, 'o': o, 'r': slim(r)}
    if x is not None:
        e['x'] = lib.cps(x) if isinstance(x, str) else []
    return e


def slim(r):
    """The fields of a result record that the trace specification reads."""
    return {'k': r['k'], 't': r['t'], 'v': r['v'], 'b': r['b'], 'mro': r['mro']}


def pair(name, mod, value, kw=None):
    """validate + is_valid on one value: (events, results)."""
    kw = kw or {}
    o = opt_id(kw)
    fresh = value if isinstance(value, Fresh) else None
    rv = lib.call(mod.validate, fresh.make() if fresh else value, **kw)
    evs = [ev(name, 'validate', o, rv)]
    ri = None
    if hasattr(mod, 'is_valid') and accepts(mod.is_valid, kw):
        ri = lib.call(mod.is_valid, fresh.make() if fresh else value, **kw)
        evs.append(ev(name, 'is_valid', o, ri))
    return evs, rv, ri


class Fresh(object):
    """A value that must be built anew for every call (one-shot iterators)."""

    def __init__(self, make, text):
        self.make = make
        self.text = text


def describe_value(v):
    if isinstance(v, Fresh):
        return v.text
    if isinstance(v, str):
        return v if len(v) <= 200 else v[:60] + '...(%d chars)' % len(v)
    return repr(v)[:200]
