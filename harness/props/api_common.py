"""Drivers shared by the API-contract properties (C01 C02 C03 C04 C15): option bindings, the
clock shim, and the recording of session steps.  Recording only -- no verdicts here."""
import datetime as _real_datetime, inspect, json, types, os
from vlib import lib, inputs

# documented keyword options of validate()/is_valid() that are not plain booleans
OPTION_VALUES = {
    'at.tin': {'office': [None, 'Bruck Eisenstadt Oberwart', 'Wien 1/23', 'Atlantis']},
    'de.handelsregisternummer': {'company_form': [None, 'GmbH', 'AG', 'Quango']},
    'de.stnr': {'region': [None, 'Sachsen', 'Bayern', 'Berlin', 'Atlantis']},   # the last one is no region: a validation error, never another exception
    'gs1_128': {'separator': ['', '\x1d', '|']},
    'mac': {'validate_manufacturer': [None, True, False]},
    'luhn': {'alphabet': ['0123456789', '0123456789ABCDEF']},
    'iso7064.mod_37_2': {'alphabet': ['0123456789ABCDEFGHIJKLMNOPQRSTUVWXYZ*', '0123456789X']},
    'iso7064.mod_37_36': {'alphabet': ['0123456789ABCDEFGHIJKLMNOPQRSTUVWXYZ', '0123456789']},
    'damm': {'table': [None]},
}


def option_sets(name, mod, fn='validate'):
    """List of kwargs dicts: the default call plus each documented option varied on its own
    (and all booleans flipped together)."""
    f = getattr(mod, fn)
    try:
        params = list(inspect.signature(f).parameters.values())[1:]
    except (TypeError, ValueError):
        return [{}]
    out = [{}]
    flips = {}
    for p in params:
        if isinstance(p.default, bool):
            out.append({p.name: not p.default})
            flips[p.name] = not p.default
        elif name in OPTION_VALUES and p.name in OPTION_VALUES[name]:
            for v in OPTION_VALUES[name][p.name]:
                if v != p.default:
                    out.append({p.name: v})
    if len(flips) > 1:
        out.append(flips)
    return out


def opt_id(kw):
    return json.dumps(kw, sort_keys=True, ensure_ascii=True) if kw else ''


def accepts(fn, kw):
    try:
        ps = inspect.signature(fn).parameters
    except (TypeError, ValueError):
        return not kw
    return all(k in ps for k in kw)


# ---- clock -------------------------------------------------------------------------------------

CLOCK_MODULES = ('be.nn', 'be.bis', 'be.ssn', 'dk.cpr', 'gs1_128', 'kr.rrn', 'no.fodselsnummer', 'ro.onrc',
                 'se.personnummer', 'sg.uen', 'za.idnr', 'lt.asmens', 'ee.ik', 'cz.rc', 'sk.rc', 'bg.egn')


class _Clock(object):
    """Stands in for the `datetime` module inside a stdnum module; date.today() is settable."""

    def __init__(self, today):
        real = _real_datetime

        class date(real.date):
            @classmethod
            def today(cls):
                return real.date(*today)

        class datetime(real.datetime):
            @classmethod
            def now(cls, tz=None):
                return real.datetime(today[0], today[1], today[2], 12, 0, 0)

            @classmethod
            def today(cls):
                return real.datetime(today[0], today[1], today[2], 12, 0, 0)

            @classmethod
            def utcnow(cls):
                return real.datetime(today[0], today[1], today[2], 12, 0, 0)
        self.date = date
        self.datetime = datetime

    def __getattr__(self, name):
        return getattr(_real_datetime, name)


class clock(object):
    """Context manager: every stdnum module that imported `datetime` sees the given date."""

    def __init__(self, today):
        self.today = today
        self.saved = []

    def __enter__(self):
        import sys
        shim = _Clock(self.today)
        for mname, m in list(sys.modules.items()):
            if mname.startswith('stdnum') and m is not None and getattr(m, 'datetime', None) is _real_datetime:
                self.saved.append(m)
                m.datetime = shim
        return self

    def __exit__(self, *a):
        for m in self.saved:
            m.datetime = _real_datetime
        return False


CLOCKS = [(1999, 12, 31), (2000, 1, 1), (2024, 2, 29), (2099, 12, 31), (1970, 1, 1), (2038, 1, 19)]


# ---- recording session steps -----------------------------------------------------------------------

def ev(name, a, o, r, x=None):
    e = {'m': name, 'a': a, 'o': o, 'r': slim(r), 'dt': False}
    if x is not None:
        e['x'] = lib.cps(x) if isinstance(x, str) else []
    return e


def slim(r):
    """The fields of a result record that the trace specification reads."""
    return {'k': r['k'], 't': r['t'], 'v': r['v'], 'b': r['b'], 'mro': r['mro']}


def pair(name, mod, value, kw=None):
    """validate + is_valid on one value: (events, results)."""
    kw = kw or {}
    o = opt_id(kw)
    fresh = value if isinstance(value, Fresh) else None
    rv = lib.call(mod.validate, fresh.make() if fresh else value, **kw)
    evs = [ev(name, 'validate', o, rv)]
    ri = None
    if hasattr(mod, 'is_valid') and accepts(mod.is_valid, kw):
        ri = lib.call(mod.is_valid, fresh.make() if fresh else value, **kw)
        evs.append(ev(name, 'is_valid', o, ri))
    return evs, rv, ri


class Fresh(object):
    """A value that must be built anew for every call (one-shot iterators)."""

    def __init__(self, make, text):
        self.make = make
        self.text = text


def describe_value(v):
    if isinstance(v, Fresh):
        return v.text
    if isinstance(v, str):
        return v if len(v) <= 200 else v[:60] + '...(%d chars)' % len(v)
    return repr(v)[:200]


# ---- the repository's own doctests as traces -----------------------------------------------------------
def doctest_traces(emit, count_key='doctest_calls'):
    """Runs every doctest of the repository (module docstrings and tests/*.doctest) with validate / is_valid of every
    number module wrapped by a recorder, and emits one micro-trace per doctest example: the calls it made, nested calls
    included, in order.  The trace specification judges them like any other session (events carry dt = TRUE so that
    is_valid is related to the validate call nested inside it only when module and argument are the same)."""
    import doctest, glob, functools, io, contextlib, hashlib
    lib.load_stdnum()
    cur = {'events': [], 'name': ''}

    def wrap(name, fn, f):
        @functools.wraps(f)
        def w(*args, **kwargs):
            try:
                val = f(*args, **kwargs)
            except BaseException as e:   # noqa
                mro = [c.__module__ + '.' + c.__name__ for c in type(e).__mro__]
                r = {'k': 'exc', 't': '', 'v': [], 'b': False, 'mro': mro}
                record(name, fn, args, kwargs, r)
                raise
            r = {'k': 'ret', 't': type(val).__name__, 'v': lib.cps(val) if type(val) is str else [], 'b': val if type(val) is bool else False, 'mro': []}
            record(name, fn, args, kwargs, r)
            return val
        return w

    def record(name, fn, args, kwargs, r):
        x = args[0] if args else kwargs.get('number')
        if not isinstance(x, str):
            return
        xh = hashlib.sha1(repr((x, sorted(kwargs.items()))).encode('utf-8', 'surrogatepass')).hexdigest()[:12]
        cur['events'].append({'m': name, 'a': fn, 'o': xh, 'r': r, 'dt': True})

    originals = []
    for name, mod in lib.modules():
        for fn in ('validate', 'is_valid'):
            f = getattr(mod, fn, None)
            if callable(f) and getattr(f, '__module__', '') == mod.__name__:
                originals.append((mod, fn, f))
                setattr(mod, fn, wrap(name, fn, f))

    class Runner(doctest.DocTestRunner):
        def report_start(self, out, test, example):
            flush()
            cur['name'] = '%s:%d %s' % (test.name, example.lineno + 1, example.source.strip()[:80])

        def report_success(self, *a):
            pass

        def report_failure(self, *a):
            pass

        def report_unexpected_exception(self, *a):
            pass

    def flush():
        if cur['events']:
            emit.trace(cur['events'], {'m': cur['events'][-1]['m'], 'w': cur['name'], 'how': 'doctest example', 'site': ''})
            emit.count(count_key, len(cur['events']))
        cur['events'] = []

    flags = doctest.NORMALIZE_WHITESPACE | doctest.IGNORE_EXCEPTION_DETAIL | doctest.ELLIPSIS
    runner = Runner(verbose=False, optionflags=flags)
    finder = doctest.DocTestFinder()
    try:
        with contextlib.redirect_stdout(io.StringIO()), contextlib.redirect_stderr(io.StringIO()):
            for name, mod in lib.modules():
                for t in finder.find(mod, mod.__name__):
                    runner.run(t, out=lambda s: None, clear_globs=True)
                flush()
            parser = doctest.DocTestParser()
            for path in sorted(glob.glob(os.path.join(lib.REPO, 'tests', '*.doctest'))):
                with open(path, encoding='utf-8') as fh:
                    text = fh.read()
                t = parser.get_doctest(text, {'__name__': '__main__'}, os.path.basename(path), path, 0)
                runner.run(t, out=lambda s: None, clear_globs=True)
                flush()
    finally:
        for mod, fn, f in originals:
            setattr(mod, fn, f)


_GENS = None


def generator_rows(name):
    """Bound check digit generators of a module (bindings/checkdigit.json): [(key, row)]."""
    global _GENS
    if _GENS is None:
        import json, os
        from vlib import lib
        _GENS = {}
        with open(os.path.join(lib.VERIF, 'bindings', 'checkdigit.json')) as fh:
            for key, row in sorted(json.load(fh)['rows'].items()):
                _GENS.setdefault(key.split(':')[0], []).append((key, row))
    return _GENS.get(name, []) or _GENS.get(GEN_ALIAS.get(name, ''), [])


# thin national wrappers use the generator of the format they wrap
GEN_ALIAS = {'me.iban': 'iban', 'be.iban': 'iban', 'es.iban': 'iban', 'no.iban': 'iban'}


def regenerated(name, mod, v, alphabet='0123456789', positions=None):
    """v (a canonical valid number of module `name`) with one payload character replaced and the check character(s)
    recomputed by the module's own generator: numbers that pass the checksum gate and reach the rules behind it.
    Yields (string, description)."""
    import re
    from props import c05
    for key, row in generator_rows(name):
        if row.get('domain_re') and not re.search(row['domain_re'], v):
            continue
        f = getattr(mod, key.split('#')[0].split(':')[1], None)
        if f is None and name in GEN_ALIAS:
            from vlib import lib as _lib
            f = getattr(_lib.module(GEN_ALIAS[name]), key.split('#')[0].split(':')[1], None)
        if f is None:
            continue
        try:
            pl0, lo, n = c05.slice_row(row, v)
        except Exception:
            continue
        for i in (range(len(v)) if positions is None else positions):
            if lo <= i < lo + n or i >= len(v):
                continue
            for c in alphabet:
                if c == v[i]:
                    continue
                w = v[:i] + c + v[i + 1:]
                try:
                    g = f(c05.slice_row(row, w)[0])
                except Exception:
                    continue
                if isinstance(g, str) and row.get('either') and n == 1:
                    for g1 in g:
                        yield w[:lo] + g1 + w[lo + n:], 'payload %r@%d + regenerated check' % (c, i)
                elif isinstance(g, str) and len(g) == n:
                    yield w[:lo] + g + w[lo + n:], 'payload %r@%d + regenerated check' % (c, i)
