"""C15 -- accepted numbers are spelled in ASCII.
TLC enumerates (op, position, foreign character class); the driver replaces every position of every
base by a same-valued foreign digit / look-alike letter and records validate(); TLC evaluates S1
(IsAscii of the returned value) on every accepted session."""
import random, unicodedata, sys
from vlib import lib, run, tlc, inputs
from props import api_common as ac
from props.c01 import gen_scripts
from props.c02 import first_meta

PROP = 'C15'
OWN = {'S1'}


def all_numeric_outside_table():
    """Every code point of category Nd/No/Nl that the clean-up table does not translate
    (asked from unicodedata, and from the library's own clean())."""
    from stdnum.util import clean
    out = []
    for cp in range(128, 0x110000):
        ch = chr(cp)
        if unicodedata.category(ch) in ('Nd', 'No', 'Nl') and clean(ch) == ch:
            out.append(cp)
    return out


def worker(unit, emit):
    if unit[0] == '__doctests__':
        return ac.doctest_traces(emit)
    name, scripts1, p = unit
    mod = lib.module(name)
    rnd = random.Random('%s/%s' % (p['seed'], name))
    corp = lib.distinct_compact(name, mod, lib.corpus(name, mod))
    bases = lib.pick_bases(name, mod, corp, p['bases'], rnd, corpus_items=lib.corpus(name, mod))
    emit.count('modules')
    opts = ac.option_sets(name, mod)

    def rec(x, how, kw=None):
        kw = kw or {}
        rv = lib.call(mod.validate, x, **kw)
        emit.count('tried')
        if rv['k'] == 'ret' and rv['t'] == 'str':
            emit.count('accepted')
            emit.trace([ac.ev(name, 'validate', ac.opt_id(kw), rv)],
                       {'m': name, 'w': x, 'how': how, 'o': ac.opt_id(kw), 'ret': lib.from_cps(rv['v'])[:80],
                        'nonascii_in': ''.join(sorted(set(c for c in x if ord(c) > 127)))})

    # characters whose case mapping lands in ASCII (Kelvin sign, dotless i, long s, Angstrom sign, ...):
    # cheap, so every corpus presentation is tried at every matching letter
    special = {'K': '\u212a', 'k': '\u212a', 'I': '\u0131', 'i': '\u0131', 'S': '\u017f', 's': '\u017f',
               'A': '\u212b'}
    special2 = {'I': '\u0130', 'i': '\u0130', 'S': '\u1e9e', 's': '\xdf'}
    for base in lib.pick(lib.corpus(name, mod), p['special_bases'], rnd):
        for i, c in enumerate(base):
            for table in (special, special2):
                if c in table:
                    rec(base[:i] + table[c] + base[i + 1:], 'case-special U+%04X@%d' % (ord(table[c]), i))
    # characters that case folding / upper() turns into ASCII letters (what re.IGNORECASE, str.upper() before a table lookup or
    # casefold() let through) at EVERY letter position of the bases, and ligatures for the letter pairs they expand to
    fold = ['\u212a', '\u0131', '\u017f', '\u0130', '\u212b']
    ligs = {'FI': '\ufb01', 'FL': '\ufb02', 'SS': '\xdf', 'ST': '\ufb06', 'FF': '\ufb00'}
    for base in bases:
        for i, c in enumerate(base):
            if c.isalpha() and c.isascii():
                for ch in fold:
                    rec(base[:i] + ch + base[i + 1:], 'folding U+%04X@%d' % (ord(ch), i))
            pair = base[i:i + 2].upper()
            if pair in ligs:
                rec(base[:i] + ligs[pair] + base[i + 2:], 'ligature U+%04X@%d' % (ord(ligs[pair]), i))
    for base in bases:
        rec(base, 'base')
        for script in scripts1:
            for s, d in inputs.concretise(base, script, rnd, k=p['k']):
                rec(s, d)
                for kw in opts[1:]:
                    if rnd.random() < p['opt_p']:
                        rec(s, d, kw)
        # every numeric code point outside the clean-up table with the same value, at digit positions
        if p['allnum']:
            for i, c in enumerate(base):
                if c in '0123456789':
                    for cp in p['allnum'].get(c, []):
                        rec(base[:i] + chr(cp) + base[i + 1:], 'rep same-valued U+%04X@%d' % (cp, i))
        # all characters replaced at once by same-valued foreign digits of one script
        for zero in (0x660, 0x6F0, 0x966, 0xE50, 0x1D7CE, 0xFF10):
            rec(''.join(chr(zero + int(c)) if c in '0123456789' else c for c in base), 'all digits U+%04X' % zero)
        tr = {k: chr(v[0]) for k, v in inputs.LOOKALIKE.items()}
        rec(''.join(tr.get(c, c) for c in base), 'all letters look-alike')
        rec(''.join(tr.get(c.upper(), c) for c in base), 'all letters look-alike (any case)')


def main():
    chk = run.Check(PROP)
    quick = chk.tier == 'quick'
    lib.load_stdnum()
    scripts1 = gen_scripts(chk, 'Gen_Foreign1')
    allnum = {}
    nums = all_numeric_outside_table()
    rnd = random.Random(chk.seed)
    for cp in nums:
        try:
            v = unicodedata.numeric(chr(cp))
        except ValueError:
            continue
        if v == int(v) and 0 <= v <= 9:
            allnum.setdefault(str(int(v)), []).append(cp)
    if quick:
        allnum = {k: rnd.sample(v, min(len(v), 12)) for k, v in allnum.items()}
    p = {'seed': chk.seed, 'bases': 3 if quick else 20, 'k': 2 if quick else 6, 'opt_p': 0.2 if quick else 1.0, 'allnum': allnum, 'special_bases': 150 if quick else 2000}
    units = [(name, scripts1, p) for name, _ in lib.modules()] + [('__doctests__',)]
    shards = chk.drive(units, worker)
    extra = run.merge_extra(shards)
    rej = chk.validate('Trace_Api', shards, own_clauses=OWN | {'S1x'})
    # S1x (foreign characters other than the national letters in the three excepted formats) goes beyond the letter of the
    # property: recorded as observations in the evidence, never as violations
    obs = [r for r in rej if r['clause'] == 'S1x']
    chk.report([r for r in rej if r['clause'] != 'S1x'])
    chk.cov['observations_S1x_excepted_formats'] = sorted(set('%s %r' % (r['meta'].get('m'), r['meta'].get('w')) for r in obs))[:40]
    return chk.finish(samples=first_meta(shards), distinct_nontrivial=extra.get('accepted', 0),
                      rule='one validate() per (module, base, position, foreign character): same-valued foreign digits (every Nd/No/Nl code '
                           'point outside the clean-up table in thorough, a seeded sample in quick), look-alike letters of each class; '
                           'sessions are recorded only when validate() accepted (non-trivial); tried counts all',
                      extra={'modules': extra.get('modules', 0), 'tried': extra.get('tried', 0),
                             'numeric_code_points_outside_table': len(nums)})


if __name__ == '__main__':
    run.main(main, PROP)
