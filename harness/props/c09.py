"""C09 -- aggregate validators accept exactly what their constituent formats accept.
MC: the country dispatch mechanism (alias, membership, cache) of Runtime.tla incl. the hazard variant
'cache before membership test'.  TRACE: for every (wrapper, constituent) relation, wrapper and constituent
outcomes on the same inputs (valid constituent numbers of every country / sub-type, single-edit neighbours,
prefix and case variants, other countries' numbers under this prefix) judged by Dispatch.tla."""
import json, os, random, importlib
from vlib import lib, run, tlc
from props import api_common as ac
from props.c02 import first_meta

PROP = 'C09'
MEMBERS = ['AT', 'BE', 'BG', 'CY', 'CZ', 'DE', 'DK', 'EE', 'ES', 'FI', 'FR', 'GR', 'EL', 'HR', 'HU', 'IE', 'IT', 'LT', 'LU', 'LV',
           'MT', 'NL', 'PL', 'PT', 'RO', 'SE', 'SI', 'SK', 'XI']
OTHER_PREFIXES = ['GB', 'CH', 'NO', 'US', 'ZZ', 'EU', 'IM', '12', 'A', '']


def variants(x, rnd):
    out = [x, x.lower(), ' ' + x + ' ', x.replace(' ', ''), x[:2] + ' ' + x[2:], x[:2] + '-' + x[2:], x[:2].lower() + x[2:]]
    for _ in range(3):
        if len(x) > 3:
            i = rnd.randrange(2, len(x))
            c = x[i]
            r = str(rnd.randrange(10)) if c.isdigit() else (chr(65 + rnd.randrange(26)) if c.isalpha() else c)
            out.append(x[:i] + r + x[i + 1:])
    out.append(x[:-1])
    out.append(x + '0')
    return [v for v in dict.fromkeys(out) if v.isascii()]


def synth_valid(mod, rnd, per_len=2):
    """Valid numbers of every length the format admits, built with the module's own generator."""
    out = []
    gen = getattr(mod, 'calc_check_digit', None)
    if gen is None:
        return out
    for n in range(1, 16):
        for _ in range(per_len * 6):
            payload = str(rnd.randrange(1, 10)) + ''.join(str(rnd.randrange(10)) for _ in range(n - 1))
            try:
                cand = payload + str(gen(payload))
                if mod.is_valid(cand) is True and cand not in out:
                    out.append(cand)
                    if len([x for x in out if len(x) == len(cand)]) >= per_len:
                        break
            except Exception:
                break
    return out


def degenerate(names, mods):
    """Valid numbers with a degenerate payload (all zeros, all nines, 0..01) of every documented length of each part, the last
    character searched: where a wrapper adds a plausibility rule of its own that the part does not have."""
    out = []
    for n, m in zip(names, mods):
        lens = set()
        heads = set()
        for c in lib.corpus(n, m)[:6]:
            try:
                v = m.validate(c)
            except Exception:
                continue
            if isinstance(v, str) and v.isascii():
                lens.add(len(v))
                heads.add(v[0] if v[:1].isalpha() else '')
        for ln in sorted(lens):
            for head in sorted(heads):
                for fill in ('0', '9'):
                    body = head + fill * (ln - 1 - len(head))
                    for body2 in (body, body[:-1] + '1'):
                        for ch in '0123456789ABCDEFGHIJKLMNOPQRSTUVWXYZ':
                            cand = body2 + ch
                            try:
                                if m.is_valid(cand) is True:
                                    out.append(cand)
                                    break
                            except Exception:
                                break
    return list(dict.fromkeys(out))


BUILD = {'mva': lambda x: x + 'MVA', 'sevat': lambda x: x + '01', 'chvat': lambda x: x + ' MWST', 'ytunnus': lambda x: x[:-1] + '-' + x[-1:]}


ALNUM = '0123456789ABCDEFGHIJKLMNOPQRSTUVWXYZ'


def prefix_letter_witnesses(mod, pfx, corp, cap=6):
    out = []
    for c in corp:
        try:
            v = mod.compact(c)
        except Exception:
            continue
        body = v[2:] if v.upper().startswith(pfx) else v
        for L in pfx:
            if not body or body[:1] == L:
                continue
            found = None
            for i in range(1, len(body)):
                for ch in ALNUM:
                    cand = L + body[1:i] + ch + body[i + 1:]
                    try:
                        if mod.is_valid(cand) is True and mod.compact(cand)[-len(cand):] == cand:
                            found = cand
                            break
                    except Exception:
                        continue
                if found:
                    break
            if found and found not in out:
                out += [pfx + found, found]
        if len(out) >= 2 * cap:
            break
    return out


def vat_module(pfx):
    from stdnum.util import get_cc_module
    if pfx in ('EU', 'IM'):
        return importlib.import_module('stdnum.eu.oss')
    if pfx not in MEMBERS:
        return None
    return get_cc_module({'EL': 'gr', 'XI': 'gb'}.get(pfx, pfx).lower(), 'vat')


def worker(unit, emit):
    kind, p = unit[0], unit[-1]
    rnd = random.Random('%s/%s' % (p['seed'], json.dumps(unit[:-1], default=str)))
    lib.load_stdnum()
    sl = ac.slim
    if kind == 'euvat':
        pfx = unit[1]
        from stdnum.eu import vat as euvat
        from stdnum import vatin
        # the process has dispatched to every member state before (the caches are warm, XI -> gb included)
        for warm in ('XI980780684', 'EL094259216', 'NL4495445B01', 'GB980780684', 'EU372000052'):
            lib.call(euvat.validate, warm)
        mod = vat_module(pfx)
        nums = []
        if mod is not None:
            name = mod.__name__[len('stdnum.'):]
            for c in lib.pick(lib.corpus(name, mod), p['bases'], rnd):
                try:
                    v = mod.compact(c)
                except Exception:
                    continue
                nums.append(v if v.upper().startswith(pfx) else pfx + v)
                nums.append(v)
        # numbers of this member state whose national part BEGINS with a character of the prefix itself (a Spanish CIF of
        # type E or S, a French key F. or R.): where prefix handling by character set or by repeated stripping shows.  Found by
        # overwriting the first character of documented numbers and searching one further character for validity.
        if mod is not None and pfx.isalpha():
            nums += prefix_letter_witnesses(mod, pfx, lib.corpus(name, mod)[:12])
        # other countries' numbers under this prefix
        for other in rnd.sample(MEMBERS, 4):
            m2 = vat_module(other)
            n2 = m2.__name__[len('stdnum.'):]
            for c in lib.pick(lib.corpus(n2, m2), 2, rnd):
                try:
                    v = m2.compact(c)
                except Exception:
                    continue
                nums.append(pfx + (v[2:] if v.upper().startswith(other) else v))
        nums += [pfx, pfx + '0', pfx + pfx, pfx + '980780684', pfx + '094259216']
        # numbers that BEGIN with this member state's code but belong to another one (a French TVA number whose alphabetic
        # key spells a country code): found by searching the tail of the other states' documented numbers
        crossing = []
        if pfx in MEMBERS and pfx.isalpha():
            for other in MEMBERS:
                m2 = vat_module(other)
                if m2 is None or other == pfx:
                    continue
                n2 = m2.__name__[len('stdnum.'):]
                for c in lib.corpus(n2, m2)[:1]:
                    try:
                        v = m2.compact(c)
                    except Exception:
                        continue
                    if len(v) < 6:
                        continue
                    for body in (v[2:], '000' + v[5:]):
                        for tail in range(0, 40):
                            cand = pfx + body[:-2] + '%02d' % tail if len(body) > 2 else pfx + body
                            try:
                                if m2.is_valid(cand) is True:
                                    crossing.append(cand)
                                    break
                            except Exception:
                                break
        for x in dict.fromkeys(crossing):
            g = lib.call(euvat.guess_country, x)
            acc = []
            for cc in sorted(set(m.lower() for m in MEMBERS) - {'el'}):
                m3 = vat_module({'gr': 'GR'}.get(cc, cc.upper()))
                if lib.call(m3.is_valid, x)['b'] is True:
                    acc.append(cc)
            got = sorted(json.loads(g['j'])['list']) if g['k'] == 'ret' and g['t'] == 'list' else ['!' + g['cls']]
            emit.trace([{'kind': 'guess', 'guess': got, 'accepting': acc}], {'m': 'eu.vat', 'w': x, 'how': 'guess_country (number of another state under this code)', 'site': g['site']})
            emit.count('guess')
        for x0 in dict.fromkeys(nums):
            for x in variants(x0, rnd):
                proj = x.upper().strip()
                pf = proj[:2]
                wr = lib.call(euvat.validate, x)
                cm = vat_module(pf)
                cr = lib.call(cm.validate, proj) if cm is not None else {'k': 'nomodule', 't': '', 'v': [], 'b': False, 'mro': []}
                emit.trace([{'kind': 'euvat', 'x': lib.cps(x), 'proj': lib.cps(proj), 'pfx': pf, 'member': cm is not None, 'wr': sl(wr), 'cr': sl(cr)}],
                           {'m': 'eu.vat', 'w': x, 'how': 'prefix %s: wrapper %s / constituent %s' % (pf, wr['cls'] or 'accepted', cr.get('cls') or cr['k']), 'site': wr['site']})
                emit.count('euvat')
                # vatin is a superset of eu.vat with the same result
                wv = lib.call(vatin.validate, x)
                emit.trace([{'kind': 'superset', 'inner': sl(wr), 'outer': sl(wv), 'same': True}],
                           {'m': 'vatin', 'w': x, 'how': 'vatin over eu.vat: %s / %s' % (wv['cls'] or 'accepted', wr['cls'] or 'accepted'), 'site': wv['site']})
                emit.count('superset')
                if rnd.random() < p['guess_p']:
                    g = lib.call(euvat.guess_country, x)
                    acc = []
                    for cc in sorted(set(m.lower() for m in MEMBERS) - {'el'}):
                        m3 = vat_module({'gr': 'GR'}.get(cc, cc.upper()))
                        if lib.call(m3.is_valid, x)['b'] is True:
                            acc.append(cc)
                    got = sorted(json.loads(g['j'])['list']) if g['k'] == 'ret' and g['t'] == 'list' else ['!' + g['cls']]
                    emit.trace([{'kind': 'guess', 'guess': got, 'accepting': acc}], {'m': 'eu.vat', 'w': x, 'how': 'guess_country', 'site': g['site']})
                    emit.count('guess')
    elif kind == 'union':
        wname, parts, ordered, guessfn = unit[1], unit[2], unit[3], unit[4]
        w = lib.module(wname)
        mods = [lib.module(n) for n in parts]
        nums = []
        for n, m in zip(parts, mods):
            nums += lib.pick(lib.corpus(n, m), p['bases'], rnd)
        nums += lib.pick(lib.corpus(wname, w), p['bases'], rnd)
        for m in mods:
            nums += synth_valid(m, rnd)
        # numbers behind the checksum gate: every digit at the first positions (type / range digits) of valid numbers of
        # each part with the check digit recomputed by that part's generator -- where a wrapper that re-implements the
        # shared checksum but forgets a part's own rules shows
        regen = []
        for n, m in zip(parts, mods):
            for x0 in lib.pick(lib.corpus(n, m), 3, rnd) + synth_valid(m, rnd, 1):
                try:
                    v0 = m.validate(x0)
                except Exception:
                    continue
                regen += [x for x, _d in ac.regenerated(n, m, v0, positions=range(0, min(len(v0), 4)))]
        items = [x for x0 in dict.fromkeys(nums) for x in variants(x0, rnd)] + list(dict.fromkeys(regen)) + degenerate(parts, mods)
        for x in items:
            if True:
                wr = lib.call(w.validate, x)
                prs = [lib.call(m.validate, x) for m in mods]
                e = {'kind': 'union', 'wr': sl(wr), 'parts': [sl(r) for r in prs], 'ordered': ordered, 'names': [n.split('.')[-1] for n in parts],
                     'hasguess': bool(guessfn), 'guess': []}
                if guessfn:
                    g = lib.call(getattr(w, guessfn), x)
                    if g['k'] == 'ret' and g['t'] == 'list':
                        e['guess'] = json.loads(g['j'])['list']
                    elif g['k'] == 'ret' and g['t'] == 'str':
                        e['guess'] = [lib.from_cps(g['v'])]       # a single type name
                    elif g['k'] == 'ret' and g['t'] == 'NoneType':
                        e['guess'] = []
                    else:
                        e['guess'] = ['!' + g['cls']]
                emit.trace([e], {'m': wname, 'w': x, 'how': 'union: wrapper %s / parts %s' % (wr['cls'] or 'accepted', [r['cls'] or 'accepted' for r in prs]), 'site': wr['site']})
                emit.count('union')
    elif kind in ('superset', 'superset10'):
        wname, parts = unit[1], unit[2]
        w = lib.module(wname)
        for n in parts:
            m = lib.module(n)
            regen = []
            for x0 in lib.pick(lib.corpus(n, m), 3, rnd):
                try:
                    regen += [x for x, _d in ac.regenerated(n, m, m.validate(x0), positions=range(0, 4))]
                except Exception:
                    pass
            degen = degenerate([n], [m])
            for x0 in lib.pick(lib.corpus(n, m), p['bases'] * 2, rnd) + synth_valid(m, rnd, 4) + list(dict.fromkeys(regen))[:60] + degen:
                for x in (variants(x0, rnd) if x0 not in regen and x0 not in degen else [x0]):
                    inner = lib.call(m.validate, x)
                    if kind == 'superset10' and not (inner['k'] == 'ret' and len(inner['v']) == 10):
                        continue
                    # the wrapper is asked about the constituent's canonical form (each format strips its own separators/prefix)
                    if wname != 'es.nif' and inner['k'] == 'ret' and inner['t'] == 'str':
                        x = lib.from_cps(inner['v'])
                    outer = lib.call(w.validate, x)
                    emit.trace([{'kind': 'superset', 'inner': sl(inner), 'outer': sl(outer), 'same': False}],
                               {'m': wname, 'w': x, 'how': '%s over %s: %s / %s' % (wname, n, outer['cls'] or 'accepted', inner['cls'] or 'accepted'), 'site': outer['site']})
                    emit.count('superset')
    elif kind == 'iff':
        wname, iname, build = unit[1], unit[2], unit[3]
        w, m = lib.module(wname), lib.module(iname)
        nums = lib.pick(lib.corpus(iname, m), p['bases'] * 2, rnd) + synth_valid(m, rnd)
        for x0 in dict.fromkeys(nums):
            try:
                c0 = m.compact(x0)
            except Exception:
                continue
            for x in variants(c0, rnd):
                x = x.strip()
                if not x or ' ' in x or '-' in x:
                    continue
                inner = lib.call(m.validate, x)
                y = BUILD[build](x)
                outer = lib.call(w.validate, y)
                emit.trace([{'kind': 'iff', 'inner': sl(inner), 'outer': sl(outer)}],
                           {'m': wname, 'w': y, 'how': '%s(%r) vs %s(%r): %s / %s' % (wname, y, iname, x, outer['cls'] or 'accepted', inner['cls'] or 'accepted'), 'site': outer['site']})
                emit.count('iff')
    elif kind == 'iban':
        from stdnum import iban
        from stdnum.util import get_cc_module
        nums = list(unit[1])
        for x0 in nums:
            for x in variants(x0, rnd):
                wr = lib.call(iban.validate, x)
                ge = lib.call(iban.validate, x, check_country=False)
                comp = lib.call(iban.compact, x)
                cc = lib.from_cps(comp['v'])[:2].lower() if comp['k'] == 'ret' else ''
                nat = get_cc_module(cc, 'iban') if cc.isalpha() and len(cc) == 2 else None
                na = lib.call(nat.validate, x) if nat else {'k': 'none', 't': '', 'v': [], 'b': False, 'mro': []}
                emit.trace([{'kind': 'iban', 'wr': sl(wr), 'generic': sl(ge), 'hasnational': nat is not None, 'national': sl(na)}],
                           {'m': 'iban', 'w': x, 'how': 'iban: wrapper %s / generic %s / national %s' % (wr['cls'] or 'accepted', ge['cls'] or 'accepted', (na.get('cls') or na['k'])), 'site': wr['site']})
                emit.count('iban')
    elif kind == 'ccmod':
        from stdnum.util import get_cc_module
        for cc in unit[1]:
            for nm in ('vat', 'iban', 'personalid', 'nonexistent', 'postal_code'):
                for spelled in (cc, cc.upper()):
                    g = get_cc_module(spelled, nm)
                    pkg = cc.lower() + ('_' if cc.lower() in ('in', 'is', 'if') else '')
                    try:
                        want = getattr(importlib.import_module('stdnum.' + pkg), nm, None)
                    except ImportError:
                        want = None
                    emit.trace([{'kind': 'ccmod', 'got': g.__name__ if g else 'None', 'want': want.__name__ if want else 'None'}],
                               {'m': 'util.get_cc_module', 'w': '%s,%s' % (spelled, nm), 'how': 'alias resolution', 'site': ''})
                    emit.count('ccmod')


def main():
    chk = run.Check(PROP)
    quick = chk.tier == 'quick'
    lib.load_stdnum()
    chk.mc('Runtime', 'MC_Runtime_code2', workers=16, heap='8g', label='dispatch mechanism (alias, membership, cache), 2 threads')
    chk.mc('Runtime', 'MC_Runtime_CacheBeforeMember', workers=8, expect_violation='PureResults', label='hazard: cache before membership test')
    chk.mc('Runtime', 'MC_Runtime_ImportWindow', workers=8, expect_violation='PureResults', label='hazard: getattr(package, name) alone while another thread is between module body and attribute (code before 772c586)')
    p = {'seed': chk.seed, 'bases': 6 if quick else 60, 'guess_p': 0.05 if quick else 0.3}
    units = [('euvat', pfx, p) for pfx in MEMBERS + OTHER_PREFIXES]
    units += [('union', 'us.tin', ['us.ssn', 'us.itin', 'us.ein', 'us.ptin', 'us.atin'], True, 'guess_type', p),
              ('union', 'be.ssn', ['be.nn', 'be.bis'], False, 'guess_type', p),
              ('union', 'th.tin', ['th.moa', 'th.pin'], False, 'tin_type', p),
              ('union', 'ro.cf', ['ro.cnp', 'ro.cui'], False, None, p),
              ('superset', 'es.nif', ['es.dni', 'es.nie', 'es.cif'], p),
              ('superset10', 'sk.dph', ['sk.rc'], p), ('superset10', 'bg.vat', ['bg.egn', 'bg.pnf'], p), ('superset', 'cz.dic', ['cz.rc'], p),
              ('superset', 'it.codicefiscale', ['it.iva'], p),
              ('iff', 'no.mva', 'no.orgnr', 'mva', p), ('iff', 'se.vat', 'se.orgnr', 'sevat', p), ('iff', 'ch.vat', 'ch.uid', 'chvat', p),
              ('iff', 'fi.ytunnus', 'fi.alv', 'ytunnus', p)]
    rnd = random.Random(chk.seed)
    ib = lib.corpus('iban', lib.module('iban'))
    for nm in ('be.iban', 'es.iban', 'me.iban', 'no.iban'):
        ib += lib.corpus(nm, lib.module(nm))
    ib = lib.pick(sorted(set(ib)), 60 if quick else 1000, rnd)
    for i in range(8):
        units.append(('iban', ib[i::8], p))
    import pkgutil, stdnum
    ccs = sorted(n for _, n, ispkg in pkgutil.iter_modules(stdnum.__path__) if ispkg and len(n.rstrip('_')) == 2)
    units.append(('ccmod', [c.rstrip('_') for c in ccs] + ['xx', 'el'], p))
    shards = chk.drive(units, worker)
    extra = run.merge_extra(shards)
    rej = chk.validate('Trace_Dispatch', shards, own_clauses={'EV1', 'EV2', 'SUP', 'IFF', 'UNI1', 'UNI2', 'UNI3', 'IB1', 'IB2', 'GC', 'CCM'})
    chk.report(rej)
    # ---- the same relation at FIRST USE under threads: the wrapper's answer in each of two threads, replayed in fresh
    # interpreters under every line-level schedule with a single preemption inside the country lookup and in the import
    # window (machinery of C13: Gen_LineSched.tla, harness/c13_runner.py); the constituents' answers are the sequential ones
    from props import c13
    from concurrent.futures import ThreadPoolExecutor
    sl = ac.slim
    from stdnum import iban as _iban
    from stdnum.util import get_cc_module as _gcm
    rl = tlc.run('Gen_LineSched', workdir=chk.work, workers=1)
    ls = []
    for ln in rl.prints:
        v = tlc.parse_value(ln)
        if v and v[0] == 'LSCHED' and v[1] not in ls and sum(1 for a, b in zip(v[1], v[1][1:]) if a != b) <= 2:
            ls.append(v[1])
    if len(ls) < 10:
        raise run.MachineryError('line schedule generator produced %d single-preemption schedules' % len(ls))
    chk.cov['states'] += rl.distinct
    chk.cov['transitions'] += rl.generated
    fjobs = []
    for x in ('ES2121000418450200051331', 'ES9121000418450200051332', 'NO9386011117947', 'BE31435411161155'):
        call = {'mod': 'iban', 'fn': 'validate', 'args': [x]}
        for sl_ in (ls if not quick else ls[::2]):
            fjobs.append({'kind': 'threads', 'n': 2, 'calls': [call], 'schedule': None, 'lines': sl_})
        fjobs.append({'kind': 'gate', 'calls': [call], 'gate': 'stdnum.%s.iban' % x[:2].lower()})
    # cross-dispatcher histories in fresh interpreters: a VAT number of country cc through eu.vat / vatin FIRST (which loads the
    # country package for its `vat` module), then an IBAN of the same country that only the national validator rejects --
    # and the other way round.  A shared lookup that remembers "this package has no such module" from the first question
    # would answer the second one wrongly.
    from stdnum import vatin as _vatin
    for cc in ('be', 'es', 'no', 'me'):
        nat, vm = _gcm(cc, 'iban'), _gcm(cc, 'vat')
        if nat is None or vm is None:
            continue
        vnum = None
        for c in lib.corpus(vm.__name__[len('stdnum.'):], vm):
            cand = cc.upper() + vm.compact(c) if not vm.compact(c).upper().startswith(cc.upper()) else vm.compact(c)
            if _vatin.is_valid(cand) is True:
                vnum = cand
                break
        bad = None
        for c in lib.corpus(nat.__name__[len('stdnum.'):], nat):
            v = _iban.compact(c)
            for i in range(len(v) - 1, 4, -1):
                if v[i].isdigit():
                    w = v[:i] + str((int(v[i]) + 1) % 10) + v[i + 1:]
                    w = w[:2] + _iban.calc_check_digits(w[:2] + '00' + w[4:]) + w[4:]
                    if _iban.is_valid(w, check_country=False) is True and nat.is_valid(w) is not True:
                        bad = w
                        break
            if bad:
                break
        if vnum and bad:
            vcall = {'mod': 'vatin', 'fn': 'validate', 'args': [vnum]}
            icall = {'mod': 'iban', 'fn': 'validate', 'args': [bad]}
            fjobs.append({'kind': 'history', 'calls': [vcall, icall]})
            fjobs.append({'kind': 'history', 'calls': [icall, vcall, icall]})
            if cc in ('be', 'es'):
                fjobs.append({'kind': 'history', 'calls': [{'mod': 'eu.vat', 'fn': 'validate', 'args': [vnum]}, icall]})
    with ThreadPoolExecutor(max_workers=16) as ex:
        fouts = list(ex.map(c13.run_runner, fjobs))

    def as_r(txt):
        if txt.startswith('EXC '):
            return {'k': 'exc', 't': '', 'v': []}
        val = json.loads(txt)
        return {'k': 'ret', 't': 'str' if isinstance(val, str) else type(val).__name__, 'v': lib.cps(val) if isinstance(val, str) else []}
    fev, fidx = [], []
    for ji, (job, o) in enumerate(zip(fjobs, fouts), 1):
        for r in o['results']:
            if r['mod'] != 'iban':
                continue
            x = r['args'][0]
            ge = lib.call(_iban.validate, x, check_country=False)
            nat = _gcm(x[:2], 'iban')
            na = lib.call(nat.validate, x) if nat else {'k': 'none', 't': '', 'v': [], 'b': False, 'mro': []}
            fev.append({'kind': 'iban', 'wr': as_r(r['r']), 'generic': sl(ge), 'hasnational': nat is not None, 'national': sl(na)})
            fidx.append({'m': 'iban', 'w': x, 'how': 'first use under threads: %s job %d thread %s step %d: wrapper %s' % (job['kind'], ji, r.get('th'), r['step'], r['r'][:40]),
                         'site': ''})
    ep, ip = os.path.join(chk.work, 'firstuse.ndjson'), os.path.join(chk.work, 'firstuse.index')
    with open(ep, 'w') as fh, open(ip, 'w') as ih:
        for t, (e, m) in enumerate(zip(fev, fidx), 1):
            fh.write(json.dumps(dict(e, tid=t)) + '\n')
            ih.write(json.dumps([t, m]) + '\n')
    rej = chk.validate('Trace_Dispatch', [{'events': ep, 'index': ip, 'n_events': len(fev), 'n_traces': len(fev)}],
                       own_clauses={'IB1', 'IB2'}, label='IBAN relation at first use under 2 threads (line schedules, import window)')
    chk.report(rej)
    chk.cov['first_use_thread_results'] = len(fev)
    return chk.finish(samples=first_meta(shards), distinct_nontrivial=sum(extra.get(k, 0) for k in ('euvat', 'superset', 'iff', 'union', 'iban', 'guess', 'ccmod')),
                      rule='per relation: valid constituent numbers of every member state / sub-type, 3 random single-character edits, truncation, '
                           'extension, case / spacing / prefix variants, other countries\' numbers under this prefix; ASCII only (the projection is '
                           'recomputed by the spec)', extra={k: extra.get(k, 0) for k in ('euvat', 'superset', 'iff', 'union', 'iban', 'guess', 'ccmod')})


if __name__ == '__main__':
    run.main(main, PROP)
