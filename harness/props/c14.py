"""C14 -- character clean-up never changes the value of a number.
The character map is OBSERVED for all 1,114,112 code points (identity runs of uninteresting characters
are run-length encoded) together with what unicodedata says about each character; TLC constrains the
observed map (U1-U5, coverage as session state), validates clean() on TLC-generated strings against
the transducer built from the observed map (U6-U9) and the end-to-end look-alike spellings (U10)."""
import json, os, random, unicodedata
from vlib import lib, run, tlc, inputs
from props.c02 import first_meta

PROP = 'C14'


def cp_events(clean, full):
    """One event per interesting code point, identity runs for the rest."""
    evs = []
    run_lo = None
    for cp in range(0x110000):
        ch = chr(cp)
        out = clean(ch)
        cat = unicodedata.category(ch)
        interesting = full or out != ch or cp < 128 or cat in ('Nd', 'Zs')
        if interesting:
            if run_lo is not None:
                evs.append({'kind': 'run', 'lo': run_lo, 'hi': cp - 1})
                run_lo = None
            evs.append({'kind': 'cp', 'cp': cp, 'out': lib.cps(out), 'dec': unicodedata.decimal(ch, -1), 'cat': cat})
        elif run_lo is None:
            run_lo = cp
    if run_lo is not None:
        evs.append({'kind': 'run', 'lo': run_lo, 'hi': 0x10FFFF})
    evs.append({'kind': 'end'})
    return evs


def u10_worker(unit, emit):
    name, sources, p = unit
    mod = lib.module(name)
    rnd = random.Random('%s/%s' % (p['seed'], name))
    corp = lib.corpus(name, mod)
    bases = lib.pick(lib.distinct_compact(name, mod, corp) , p['bases'], rnd)
    # presentations with separators matter here: also take raw corpus spellings
    bases = list(dict.fromkeys(bases + lib.pick(corp, p['bases'], rnd)))
    for base in bases:
        r0 = lib.call(mod.validate, base)
        if not (r0['k'] == 'ret' and r0['t'] == 'str'):
            continue
        for i, c in enumerate(base):
            srcs = sources.get(c)
            if not srcs:
                continue
            pick = srcs if len(srcs) <= p['k'] else rnd.sample(srcs, p['k'])
            for s in pick:
                x = base[:i] + s + base[i + 1:]
                r1 = lib.call(mod.validate, x)
                emit.trace([{'kind': 'u10', 'm': name, 'r0': slim(r0), 'r1': slim(r1)}],
                           {'m': name, 'w': x, 'base': base, 'how': 'look-alike U+%04X for %r@%d' % (ord(s), c, i), 'site': r1['site']})
                emit.count('u10')
        # the whole number respelled with look-alikes of one style
        for style in range(p['styles']):
            x = ''.join((sources[c][(style * 7 + j) % len(sources[c])] if c in sources else c) for j, c in enumerate(base))
            if x != base:
                r1 = lib.call(mod.validate, x)
                emit.trace([{'kind': 'u10', 'm': name, 'r0': slim(r0), 'r1': slim(r1)}],
                           {'m': name, 'w': x, 'base': base, 'how': 'all look-alikes, style %d' % style, 'site': r1['site']})
                emit.count('u10')


FOREIGN = ['\u0627', '\u0647', '\u0665', '\u06f5', '\u0417', '\u041e', '\u0431', '\u039f', '\u03b8', 'O', 'o', 'l', 'I', 'S', 'B', 'Z',
           '\u00b2', '\u00b9', '\u2460', '\u2070', '\u3007', '\u4e00', '\u5341', '\u216b', '\u0d6a', '\u1369', '\U0001d7ce', '\uff11']


def u11_worker(unit, emit):
    """Foreign characters in the place of a digit of a valid number: the characters the module's own source mentions (its
    translation tables) and a fixed repertoire of letters and numerals that look like digits."""
    name, p = unit
    mod = lib.module(name)
    rnd = random.Random('%s/u11/%s' % (p['seed'], name))
    own = [c for c in inputs.module_alphabet(mod, cap=200) if ord(c) > 127]
    # every non-ASCII character of the module's string constants, lower case ones included
    import ast, inspect
    try:
        for node in ast.walk(ast.parse(inspect.getsource(mod))):
            if isinstance(node, ast.Constant) and isinstance(node.value, str) and len(node.value) <= 200:
                own += [c for c in node.value if ord(c) > 127 and c not in own]
    except Exception:
        pass
    chars = list(dict.fromkeys(own[:60] + FOREIGN))
    bases = lib.pick(lib.distinct_compact(name, mod, lib.corpus(name, mod)), p['bases'], rnd)
    for base in bases:
        r0 = lib.call(mod.validate, base)
        if not (r0['k'] == 'ret' and r0['t'] == 'str'):
            continue
        spots = [i for i, c in enumerate(base) if c in '0123456789']
        spots = spots if len(spots) <= p['spots'] else sorted(rnd.sample(spots, p['spots']))
        for i in spots:
            rdel = lib.call(mod.validate, base[:i] + base[i + 1:])
            if own and i == spots[0]:
                rd = [slim(lib.call(mod.validate, base[:i] + d + base[i + 1:])) for d in '0123456789']
                for ch in own[:60]:
                    r1 = lib.call(mod.validate, base[:i] + ch + base[i + 1:])
                    emit.trace([{'kind': 'u12', 'm': name, 'ch': ord(ch), 'dec': unicodedata.decimal(ch, -1), 'r1': slim(r1), 'rd': rd, 'rdel': slim(rdel)}],
                               {'m': name, 'w': base[:i] + ch + base[i + 1:], 'base': base, 'how': 'own table character U+%04X at digit position %d against all ten digits' % (ord(ch), i), 'site': r1['site']})
                    emit.count('u11')
            for ch in chars:
                x = base[:i] + ch + base[i + 1:]
                r1 = lib.call(mod.validate, x)
                emit.trace([{'kind': 'u11', 'm': name, 'd': ord(base[i]), 'ch': ord(ch), 'dec': unicodedata.decimal(ch, -1),
                             'r0': slim(r0), 'r1': slim(r1), 'rdel': slim(rdel)}],
                           {'m': name, 'w': x, 'base': base, 'how': 'foreign U+%04X for digit %r@%d' % (ord(ch), base[i], i), 'site': r1['site']})
                emit.count('u11')


def slim(r):
    return {'k': r['k'], 't': r['t'], 'v': r['v']}


def main():
    chk = run.Check(PROP)
    quick = chk.tier == 'quick'
    lib.load_stdnum()
    from stdnum.util import clean
    rnd = random.Random(chk.seed)
    # ---- the observed map over all code points
    evs = cp_events(clean, full=not quick)
    sources = {}
    for e in evs:
        if e['kind'] == 'cp' and e['out'] != [e['cp']] and len(e['out']) == 1:
            sources.setdefault(chr(e['out'][0]), []).append(chr(e['cp']))
    # ---- the table the library declares: every entry must be what clean() does, alone and in context
    from stdnum import util
    table = getattr(util, '_char_map', None)
    if not isinstance(table, dict) or not table:
        table = {}
        chk.notes.append('stdnum.util._char_map not found: clause T1 (declared table) skipped, the observed map is used alone')
        chk.cov['table_binding'] = 'skipped: stdnum.util._char_map not found'
    for src, tgt in sorted(table.items()):
        if len(src) == 1 and len(tgt) == 1:
            evs.insert(len(evs) - 1, {'kind': 'tab', 'src': ord(src), 'tgt': ord(tgt), 'alone': lib.cps(clean(src)),
                                      'ctx': lib.cps(clean('1' + src + 'A')), 'twice': lib.cps(clean(src + src))})
            if src != tgt and src not in sources.get(tgt, []):
                sources.setdefault(tgt, []).append(src)
    # ---- TLC-generated class strings, concretised
    rg = tlc.run('Gen_Clean', workdir=chk.work, workers=1)
    if not rg.ok:
        raise run.MachineryError('Gen_Clean failed\n' + rg.out[-1500:])
    chk.cov['states'] += rg.distinct
    chk.cov['transitions'] += rg.generated
    digit_src = [s for d in '0123456789' for s in sources.get(d, [])]
    cls = {
        'digit': lambda: rnd.choice('0123456789'), 'letter': lambda: rnd.choice('ABCXYZabcxyz'),
        'lk_digit': lambda: rnd.choice(digit_src) if digit_src else '0',
        'lk_dash': lambda: rnd.choice(sources.get('-', ['-'])), 'lk_space': lambda: rnd.choice(sources.get(' ', [' '])),
        'lk_dot': lambda: rnd.choice(sources.get('.', ['.'])), 'sep': lambda: rnd.choice('-./: ,*\''),
        'other': lambda: rnd.choice(['​', '\n', '\t', '٠', '\xe9', '\U0001f600', '_', '\ud800', '\x00']),
    }
    delmap = {'sep': '-/:,*\'', 'space': ' ', 'dot': '.', 'digit': '0123456789', 'other': '​\n_', 'letter': 'ABCabc'}
    nstr = 0
    reps = 1 if quick else 6
    for ln in rg.prints:
        v = tlc.parse_value(ln)
        if not v or v[0] != 'STR':
            continue
        for _ in range(reps):
            s = ''.join(cls[c]() for c in v[1])
            d = ''.join(delmap[x] for x in v[2])
            r1 = lib.call(clean, s, d)
            out = lib.from_cps(r1['v']) if r1['k'] == 'ret' else '!' + r1['cls']
            r2 = lib.call(clean, out, d)
            evs.append({'kind': 'str', 's': lib.cps(s), 'del': lib.cps(d), 'out': lib.cps(out),
                        'out2': r2['v'] if r2['k'] == 'ret' else lib.cps('!' + r2['cls'])})
            nstr += 1
    # longer strings: corpus numbers respelled
    ep = os.path.join(chk.work, 'clean.ndjson')
    ip = os.path.join(chk.work, 'clean.index')
    with open(ep, 'w') as fh, open(ip, 'w') as ih:
        for t, e in enumerate(evs, 1):
            fh.write(json.dumps(dict(e, tid=t)) + '\n')
            if e['kind'] == 'tab':
                meta = {'m': 'util.clean', 'w': 'table entry U+%04X -> %r' % (e['src'], chr(e['tgt'])), 'how': 'table', 'site': ''}
            elif e['kind'] == 'cp':
                meta = {'m': 'util.clean', 'w': 'U+%04X -> %r' % (e['cp'], lib.from_cps(e['out'])), 'how': 'code point', 'site': ''}
            elif e['kind'] == 'str':
                meta = {'m': 'util.clean', 'w': '%r del %r -> %r' % (lib.from_cps(e['s']), lib.from_cps(e['del']), lib.from_cps(e['out'])), 'how': 'string', 'site': ''}
            else:
                meta = {'m': 'util.clean', 'w': json.dumps(e)[:80], 'how': e['kind'], 'site': ''}
            ih.write(json.dumps([t, meta]) + '\n')
    shard = {'events': ep, 'index': ip, 'n_events': len(evs), 'n_traces': len(evs)}
    rej = chk.validate('Trace_Clean', [shard], heap='6g', label='observed map over all code points + generated strings')
    chk.report(rej)
    # ---- U10 end to end
    p = {'seed': chk.seed, 'bases': 2 if quick else 12, 'k': 2 if quick else 40, 'styles': 2 if quick else 6}
    units = [(name, sources, p) for name, _ in lib.modules()]
    shards = chk.drive(units, u10_worker)
    extra = run.merge_extra(shards)
    rej = chk.validate('Trace_Clean', shards, own_clauses={'U10'}, label='look-alike spellings end to end')
    chk.report(rej)
    # ---- U11: module-level translation tables
    p11 = {'seed': chk.seed, 'bases': 1 if quick else 6, 'spots': 3 if quick else 12}
    shards11 = chk.drive([(name, p11) for name, _ in lib.modules()], u11_worker)
    extra11 = run.merge_extra(shards11)
    chk.cov['u11_events'] = extra11.get('u11', 0)
    rej = chk.validate('Trace_Clean', shards11, own_clauses={'U11', 'U12'}, label='foreign characters in digit positions, every module')
    chk.report(rej)
    n_cp = len([e for e in evs if e['kind'] == 'cp'])
    return chk.finish(samples=[{'map_entries': {k: len(v) for k, v in sorted(sources.items())}}] + first_meta(shards, 2),
                      distinct_nontrivial=n_cp + nstr + extra.get('u10', 0), exhaustive=True,
                      rule='all 1,114,112 code points (individual events for ASCII, Nd, Zs and every non-identity character; identity runs '
                           'otherwise; coverage checked by TLC as session state), TLC-generated class strings of length <= 4 x 6 delete '
                           'sets, and for every module corpus numbers with each translatable character replaced by look-alikes',
                      extra={'code_point_events': n_cp, 'string_events': nstr, 'u10_events': extra.get('u10', 0),
                             'non_identity_entries': sum(len(v) for v in sources.values())})


if __name__ == '__main__':
    run.main(main, PROP)
