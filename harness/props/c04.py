"""C04 -- format() preserves the identity of a valid number.
Session: validate(x) ; format(x,o) ; validate(format(x,o)) ; format(validate(x),o).
TLC evaluates G0 (format returns text), G1 (same number, up to the four documented
normalisations written out in ApiFormat.tla) and G2 (presentation independence)."""
import random, inspect
from vlib import lib, run, tlc, inputs
from props import api_common as ac
from props.c01 import gen_scripts
from props.c02 import first_meta

PROP = 'C04'
OWN = {'G0', 'G1', 'G2'}

SEPARATORS = [' ', '-', '.', '', '/', ':']
EXTRA = {'meid': {'format': [None, 'hex', 'dec']}, 'de.stnr': {'region': [None]}}


def format_options(name, mod, sample):
    """Documented format options: default, each bool flipped, alternative separators that the
    module's own compact() is observed to remove (so the formatted text is still this number)."""
    try:
        params = list(inspect.signature(mod.format).parameters.values())[1:]
    except (TypeError, ValueError):
        return [{}]
    out = [{}]
    for prm in params:
        if isinstance(prm.default, bool):
            out.append({prm.name: not prm.default})
        elif prm.name == 'separator':
            for sep in SEPARATORS:
                if sep == prm.default:
                    continue
                try:
                    if mod.compact(mod.format(sample, separator=sep)) == mod.compact(sample):
                        out.append({'separator': sep})
                except Exception:
                    pass
        elif name in EXTRA and prm.name in EXTRA[name]:
            for v in EXTRA[name][prm.name]:
                if v != prm.default:
                    out.append({prm.name: v})
    bools = {prm.name: not prm.default for prm in params if isinstance(prm.default, bool)}
    if len(bools) > 1:
        out.append(bools)
    return out


def worker(unit, emit):
    name, scripts1, scripts2, p = unit
    mod = lib.module(name)
    if not hasattr(mod, 'format'):
        return
    rnd = random.Random('%s/%s' % (p['seed'], name))
    corp = lib.corpus(name, mod)
    if not corp:
        return
    bases = lib.pick_bases(name, mod, lib.distinct_compact(name, mod, corp), p['bases'], rnd, corpus_items=corp)
    pres = lib.pick(corp, p['pres'], rnd)
    emit.count('modules')
    fopts = format_options(name, mod, bases[0])

    def rec(x, how, fo):
        rv = lib.call(mod.validate, x)
        if not (rv['k'] == 'ret' and rv['t'] == 'str'):
            emit.count('not_accepted')
            return
        emit.count('accepted')
        o = ac.opt_id(fo)
        v = lib.from_cps(rv['v'])
        rf = lib.call(mod.format, x, **fo)
        evs = [ac.ev(name, 'validate', '', rv), ac.ev(name, 'format', o, rf)]
        if rf['k'] == 'ret' and rf['t'] == 'str':
            f = lib.from_cps(rf['v'])
            evs.append(ac.ev(name, 'validate_f', '', lib.call(mod.validate, f), x=f))
        rfv = lib.call(mod.format, v, **fo)
        evs.append(ac.ev(name, 'format_v', o, rfv, x=v))
        emit.trace(evs, {'m': name, 'w': x, 'how': how, 'o': o, 'ret': v[:80],
                         'fmt': lib.from_cps(rf['v'])[:80] if rf['k'] == 'ret' else rf['cls'],
                         'fmt_v': lib.from_cps(rfv['v'])[:80] if rfv['k'] == 'ret' else rfv['cls'],
                         'site': rf['site'] if rf['k'] == 'exc' else ''})

    for x in pres:
        for fo in fopts:
            rec(x, 'corpus', fo)
    for base in bases:
        for f in (str.lower, str.upper):
            for fo in fopts:
                rec(f(base), f.__name__, fo)
        rec(' ' + base + '\n', 'surround', {})
        # the module's own formatted and compact spellings
        for g in ('compact', 'format'):
            try:
                rec(getattr(mod, g)(base), g, {})
            except Exception:
                pass
        for script in scripts1:
            for s, d in inputs.concretise(base, script, rnd, k=p['k']):
                rec(s, d, {})
        for script in scripts2:
            for s, d in inputs.concretise(base, script, rnd, k=1):
                rec(s, d, {})
        for fo in fopts[1:]:
            for script in scripts1[::p['opt_stride']]:
                for s, d in inputs.concretise(base, script, rnd, k=1):
                    rec(s, d, fo)
    # shorter and longer members of the same family: the leading components of a number written with separators (an ISIL that
    # is its agency prefix alone), and the short alphanumeric constants of the module's source as tail (a branch code, a
    # version suffix) -- rec() keeps the ones the validator accepts
    import re as _re
    tails = [L for L in inputs.literals(mod, minlen=1, maxlen=4, cap=200) if L.isalnum() and L.isascii()][:40]
    for base in bases:
        parts = [q for q in _re.split(r'([-/ .:])', base)]
        for k in range(1, len(parts), 2):
            rec(''.join(parts[:k]), 'leading components', {})
            rec(''.join(parts[:k + 1]), 'leading components and separator', {})
        try:
            cb = mod.compact(base)
        except Exception:
            continue
        for L in tails:
            if len(L) < len(cb):
                rec(cb[:-len(L)] + L, 'literal tail %r' % L, {})
            rec(cb + L, 'literal appended %r' % L, {})
    lits = inputs.literals(mod, cap=p['lits'])
    for base in bases[:p['lit_bases']]:
        for s in inputs.substitute_tokens(base, lits):
            rec(s, 'literal-substitution', {})


def main():
    chk = run.Check(PROP)
    quick = chk.tier == 'quick'
    scripts1 = gen_scripts(chk, 'Gen_Decor1')
    scripts2 = gen_scripts(chk, 'Gen_Decor2R', simulate='num=%d' % (100 if quick else 2500), depth=3)
    p = {'seed': chk.seed, 'bases': 4 if quick else 40, 'pres': 40 if quick else 600, 'k': 1 if quick else 3,
         'opt_stride': 3 if quick else 1, 'lits': 400 if quick else 3000, 'lit_bases': 1 if quick else 4}
    units = [(name, scripts1, scripts2, p) for name, _ in lib.modules()]
    shards = chk.drive(units, worker)
    extra = run.merge_extra(shards)
    rej = chk.validate('Trace_Api', shards, own_clauses=OWN)
    chk.report(rej)
    return chk.finish(samples=first_meta(shards), distinct_nontrivial=extra.get('accepted', 0),
                      rule='session per accepted presentation x (corpus presentations, case variants, the module\'s own compact/format '
                           'output, TLC-generated decorations at every position) and format option set (default, each boolean flipped, '
                           'alternative separators that compact() is observed to remove, meid format=hex/dec); non-trivial = accepted',
                      extra={'modules_with_format': extra.get('modules', 0), 'inputs_not_accepted': extra.get('not_accepted', 0)})


if __name__ == '__main__':
    run.main(main, PROP)
