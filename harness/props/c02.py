"""C02 -- validate() returns a canonical fixed point.
Session: validate(x, o) ; validate(stored, o).  Clauses F1 (same value back) and F2 (no edge
whitespace) are evaluated by TLC (Api.tla)."""
import random
from vlib import lib, run, tlc, inputs
from props import api_common as ac
from props.c01 import gen_scripts

PROP = 'C02'
OWN = {'F1', 'F2'}


def session(name, mod, x, kw):
    o = ac.opt_id(kw)
    rv = lib.call(mod.validate, x, **kw)
    evs = [ac.ev(name, 'validate', o, rv)]
    if rv['k'] == 'ret' and rv['t'] == 'str':
        stored = lib.from_cps(rv['v'])
        r2 = lib.call(mod.validate, stored, **kw)
        evs.append(ac.ev(name, 'revalidate', o, r2, x=stored))
    return evs, rv


def worker(unit, emit):
    if unit[0] == '__doctests__':
        return ac.doctest_traces(emit)
    name, scripts1, scripts2, p = unit
    mod = lib.module(name)
    rnd = random.Random('%s/%s' % (p['seed'], name))
    corp = lib.corpus(name, mod)
    bases = lib.pick_bases(name, mod, lib.distinct_compact(name, mod, corp), p['bases'], rnd, corpus_items=corp)
    # every documented presentation of the corpus counts too (they differ in separators/case)
    pres = lib.pick(corp, p['pres'], rnd)
    emit.count('modules')
    opts = ac.option_sets(name, mod)

    def rec(x, how, kw):
        evs, rv = session(name, mod, x, kw)
        if len(evs) < 2:
            emit.count('not_accepted')
            return
        emit.count('accepted')
        emit.trace(evs, {'m': name, 'w': ac.describe_value(x), 'how': how, 'o': ac.opt_id(kw),
                         'ret': lib.from_cps(rv['v'])[:80]})

    for x in pres:
        for kw in opts:
            rec(x, 'corpus', kw)
    for base in bases:
        for pre, post in ((' ', ' '), ('\t', '\n'), ('\n', ''), ('', '\r\n'), (' ', '　'), ('\xa0', '\x85'), ('\x1c', '\x1f')):
            for kw in opts:
                rec(pre + base + post, 'surround', kw)
        for f in (str.lower, str.upper, str.swapcase):
            for kw in opts:
                rec(f(base), f.__name__, kw)
        # zeros in front (also behind a blank) and stretched spellings: what a clean-up pipeline in the wrong order leaves behind
        for y, how in (('0' + base, 'zero prefixed'), (' 0' + base, 'blank and zero prefixed'), ('00' + base + ' ', 'two zeros prefixed'),
                       (' '.join(base), 'stretched'), (base + ' ' * 80, 'padded right 80')):
            rec(y, how, {})
        for script in scripts1:
            for s, d in inputs.concretise(base, script, rnd, k=p['k']):
                rec(s, d, {})
        for script in scripts2:
            for s, d in inputs.concretise(base, script, rnd, k=1):
                rec(s, d, {})
        for kw in opts[1:]:
            for script in scripts1[::p['opt_stride']]:
                for s, d in inputs.concretise(base, script, rnd, k=1):
                    rec(s, d, kw)
    # numbers whose canonical form itself begins with a prefix that compact() strips (a French VAT number whose alphabetic key
    # spells FR): the doubled prefix with the tail searched for an accepted number -- what validate() returns for it must
    # validate to itself
    plits = [L for L in inputs.literals(mod, minlen=2, maxlen=5, cap=80) if L.rstrip(':').isalpha() and L.isascii() and L.isupper()][:6]
    for base in bases[:2]:
        try:
            v = mod.validate(base)
        except Exception:
            continue
        if not isinstance(v, str) or not v.isascii() or len(v) < 6:
            continue
        for L in plits:
            body0 = v[len(L):] if v.upper().startswith(L) else v
            for body in dict.fromkeys([body0[len(L):] if len(body0) > len(L) + 4 else body0, '000' + body0[len(L) + 3:]]):
                hit = 0
                for tail in range(100):
                    x = L + L + body[:-2] + '%02d' % tail
                    try:
                        ok = mod.is_valid(x) is True
                    except Exception:
                        ok = False
                    if ok:
                        rec(x, 'doubled prefix %r, tail searched' % L, {})
                        hit += 1
                        if hit >= 2:
                            break
    # table-driven presentations: a word of a base replaced by a string constant of the module
    lits = inputs.literals(mod, cap=p['lits'])
    for base in bases[:p['lit_bases']]:
        for s in inputs.substitute_tokens(base, lits):
            rec(s, 'literal-substitution', {})


def main():
    chk = run.Check(PROP)
    quick = chk.tier == 'quick'
    # design level: which compositions of the clean-up primitives give a fixed point (ApiDesign.tla)
    chk.mc('ApiDesign', 'MC_ApiDesign_code', workers=8, label='clean-up pipeline as the code composes it, all strings <= 3')
    chk.mc('ApiDesign', 'MC_ApiDesign_code4', workers=8, label='same, strings <= 4')
    chk.mc('ApiDesign', 'MC_ApiDesign_strip_then_prefix', workers=4, expect_violation='FixedPoint', label='hazard: prefix dropped after strip (no.mva before the fix)')
    chk.mc('ApiDesign', 'MC_ApiDesign_inner_strips_more', workers=4, expect_violation='FixedPoint', label='hazard: inner validator deletes more than the outer (ch.ssn)')
    scripts1 = gen_scripts(chk, 'Gen_Decor1')
    scripts2 = gen_scripts(chk, 'Gen_Decor2R', simulate='num=%d' % (150 if quick else 3000), depth=3)
    p = {'seed': chk.seed, 'bases': 3 if quick else 25, 'pres': 30 if quick else 400, 'k': 1 if quick else 3,
         'opt_stride': 3 if quick else 1, 'lits': 400 if quick else 3000, 'lit_bases': 1 if quick else 4}
    units = [(name, scripts1, scripts2, p) for name, _ in lib.modules()] + [('__doctests__',)]
    shards = chk.drive(units, worker)
    extra = run.merge_extra(shards)
    rej = chk.validate('Trace_Api', shards, own_clauses=OWN)
    chk.report(rej)
    samples = first_meta(shards)
    return chk.finish(samples=samples, distinct_nontrivial=extra.get('accepted', 0),
                      rule='session = validate(x,o); validate(result,o) for every presentation x the module accepts: corpus '
                           'presentations, surrounding whitespace, case variants, TLC-generated separator/look-alike decorations at '
                           'every position (depth 1) and simulated depth 2, under every documented option; non-trivial = accepted',
                      extra={'modules': extra.get('modules', 0), 'inputs_not_accepted': extra.get('not_accepted', 0)})


def first_meta(shards, n=3):
    import json
    out = []
    for s in shards[:2]:
        with open(s['index']) as fh:
            for i, ln in enumerate(fh):
                if i in (0, 40, 400):
                    out.append(json.loads(ln)[1])
    return out


if __name__ == '__main__':
    run.main(main, PROP)
