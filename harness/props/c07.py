"""C07 -- international identifiers agree with an independent reading of their standard.
Formats.tla transcribes 17 formats (+ IBAN in FormatIban.tla, Bitcoin in Bitcoin.tla when present).  The
driver records validate(x) for corpus numbers, every single-character edit (all positions x format alphabet),
insertions/deletions, random strings over the alphabet, ASCII hostile characters, and block digests of
complete payload spaces (ISSN 10^7, IMO 10^6, EAN-8 10^7); TLC recomputes accept/reject and canonical form."""
import json, os, random
from vlib import inputs, lib, run, tlc
from props.c02 import first_meta

PROP = 'C07'
FORMATS = {'ean': 'ean', 'isbn': 'isbn', 'issn': 'issn', 'ismn': 'ismn', 'imei': 'imei', 'isni': 'isni', 'lei': 'lei',
           'iso11649': 'iso11649', 'grid': 'grid', 'cusip': 'cusip', 'sedol': 'gb.sedol', 'figi': 'figi', 'isin': 'isin', 'imo': 'imo',
           'casrn': 'casrn', 'bic': 'bic', 'isrc': 'isrc', 'iban': 'iban'}
ALNUM = '0123456789ABCDEFGHIJKLMNOPQRSTUVWXYZ'
HOSTILE = [' ', '-', '.', '/', ':', ',', '\t', '\n', '\r', '\x0b', '\x0c', '\x1c', '\x00', '_', '*', '@', '#', '+', '(', ')', 'a', 'x', 'm', 'z', '"', "'", '\\', '~', '\x7f']
LENGTHS = {'ean': [7, 8, 9, 11, 12, 13, 14, 15], 'isbn': [8, 9, 10, 11, 12, 13, 14], 'issn': [7, 8, 9], 'ismn': [9, 10, 11, 12, 13, 14],
           'imei': [13, 14, 15, 16, 17], 'isni': [15, 16, 17], 'lei': [2, 18, 19, 20, 21], 'iso11649': [4, 5, 6, 12, 24, 25, 26],
           'grid': [17, 18, 19], 'cusip': [8, 9, 10], 'sedol': [6, 7, 8], 'figi': [11, 12, 13], 'isin': [11, 12, 13], 'imo': [6, 7, 8],
           'casrn': [5, 6, 7, 8, 9, 10, 11], 'bic': [7, 8, 9, 10, 11, 12], 'isrc': [11, 12, 13], 'iban': [4, 5, 15, 16, 18, 22, 24, 28, 34]}


def inputs_lookalike():
    return {'A': '\u0391', 'B': '\u0392', 'E': '\u0395', 'K': '\u212a', 'M': '\u039c', 'O': '\u041e', 'P': '\u0420', 'X': '\u03a7', 'F': '\u03dc',
            'R': '\u0158', 'S': '\u0405', 'I': '\u0130', 'D': '\u010e', 'N': '\u00d1', 'G': '\u011e', 'U': '\u00dc', 'C': '\u0421', 'T': '\u0422'}


def sl(r):
    return {'k': r['k'], 't': r['t'], 'v': r['v']}


def worker(unit, emit):
    kind = unit[0]
    p = unit[-1]
    lib.load_stdnum()
    if kind == 'val':
        f, part, nparts = unit[1], unit[2], unit[3]
        mod = lib.module(FORMATS[f])
        rnd = random.Random('%s/%s/%d' % (p['seed'], f, part))
        corp = [c for c in lib.corpus(FORMATS[f], mod) if c.isascii()]   # bases are ASCII; foreign characters are put in by the edits
        bases = lib.pick(corp, p['bases'], rnd)[part::nparts]
        kw = {'check_country': False} if f == 'iban' else {}

        def rec(x, how):
            r = lib.call(mod.validate, x, **kw)
            emit.trace([{'kind': 'val', 'f': f, 'x': lib.cps(x), 'r': sl(r)}],
                       {'m': FORMATS[f], 'w': x, 'how': how, 'site': r['site'], 'outcome': r['cls'] or lib.from_cps(r['v'])})
            emit.count('val')
            if f == 'isbn':      # the documented option convert=True: same accept set, ISBN-13 as result (clause A3)
                r2 = lib.call(mod.validate, x, convert=True)
                emit.trace([{'kind': 'valc', 'f': f, 'x': lib.cps(x), 'r': sl(r2)}],
                           {'m': FORMATS[f], 'w': x, 'how': how + ' convert=True', 'site': r2['site'], 'outcome': r2['cls'] or lib.from_cps(r2['v'])})
                emit.count('val')
        for b in bases:
            rec(b, 'corpus')
            try:
                c = mod.compact(b)
            except Exception:
                c = b
            for base in dict.fromkeys([b, c]):
                for i in range(len(base)):
                    for ch in (ALNUM if base == c else rnd.sample(ALNUM, 8)):
                        if ch != base[i]:
                            rec(base[:i] + ch + base[i + 1:], 'rep@%d' % i)
                    rec(base[:i] + base[i + 1:], 'del@%d' % i)
                    for ch in rnd.sample(ALNUM, 3) + rnd.sample(HOSTILE, 4):
                        rec(base[:i] + ch + base[i:], 'ins@%d' % i)
                    if i + 1 < len(base):
                        rec(base[:i] + base[i + 1] + base[i] + base[i + 2:], 'swap@%d' % i)
                for ch in HOSTILE:
                    rec(base + ch, 'append')
                    rec(ch + base, 'prepend')
                    j = rnd.randrange(len(base) + 1)
                    rec(base[:j] + ch + base[j:], 'ins hostile@%d' % j)
                # foreign digits / letters that the clean-up table does not translate: the standards know ASCII only
                for i, ch in enumerate(base):
                    if ch.isdigit():
                        for zero in (0x660, 0x966):
                            rec(base[:i] + chr(zero + int(ch)) + base[i + 1:], 'foreign digit@%d' % i)
                    elif ch.isalpha() and ch.upper() in inputs_lookalike():
                        rec(base[:i] + inputs_lookalike()[ch.upper()] + base[i + 1:], 'foreign letter@%d' % i)
                if base == c and len(c) >= 2:
                    # symbols the module's own source mentions ('*', '@', '#' of CUSIP, ...) and a few alphanumerics at every
                    # payload position, with EVERY final character: one of them is the right check character under the
                    # standard, so the weight of each such symbol is compared, not only its admissibility
                    symbols = [d for d in inputs.module_alphabet(mod) if not d.isalnum()][:6]
                    finals = '0123456789' + ('ABCDEFGHIJKLMNOPQRSTUVWXYZ' if c[-1].isalpha() else '')
                    for i in range(len(c) - 1):
                        for d in (list(ALNUM) if i < 2 and len(c) <= 14 else symbols + rnd.sample(ALNUM, 2)):     # prefixes (reserved / country codes) in full
                            if d == c[i]:
                                continue
                            for z in finals:
                                rec(c[:i] + d + c[i + 1:-1] + z, 'rep@%d + final %s' % (i, z))
                rec(base.lower(), 'lower')
                rec(' ' + base + ' ', 'padded')
                rec('\t' + base + '\n', 'padded2')
                if f == 'figi' and len(c) == 12:
                    from stdnum import figi as _figi
                    for pre in ('BS', 'BM', 'GG', 'GB', 'GH', 'KY', 'VG', 'BB', 'KK'):
                        body = pre + c[2:11]
                        try:
                            rec(body + _figi.calc_check_digit(body), 'reserved prefix ' + pre)
                        except Exception:
                            pass
                if f in ('isin', 'isrc') and base == c and part == 0:
                    # every code of either country table (as written and as executed) in front of this number
                    for cc in p.get('codes', []):
                        if f == 'isrc':
                            rec(cc + c[2:], 'country code ' + cc)
                        else:
                            for z in '0123456789':
                                rec(cc + c[2:-1] + z, 'country code %s + final %s' % (cc, z))
                if f == 'imo':
                    rec('IMO ' + base, 'prefix')
                    rec('imo' + base, 'prefix')
                if f == 'grid':
                    rec('GRid:' + base, 'prefix')
                if f == 'isbn' and len(c) == 10 and c[0] == '0':
                    rec(c[1:], 'sbn')
        if part == 0:
            for n in LENGTHS[f]:
                for _ in range(p['random']):
                    alpha = '0123456789' if f in ('ean', 'imei', 'imo', 'issn', 'isni', 'isbn', 'ismn', 'casrn') and rnd.random() < 0.8 else ALNUM
                    rec(''.join(rnd.choice(alpha) for _ in range(n)), 'random len %d' % n)
            for x in ('', ' ', '-', 'X', '0', '00000000', 'M', 'RF', 'IMO', 'GRID:', '--', '9-', '\n'):
                rec(x, 'degenerate')
    elif kind == 'made':
        items = unit[1]
        rnd = random.Random('%s/made/%d' % (p['seed'], len(items)))
        for f, sub, x in items:
            mod = lib.module(FORMATS[f])
            kw = {'check_country': False} if f == 'iban' else {}
            pres = [x, ' ' + x + ' ', x.lower()]
            if len(x) > 4:
                i = rnd.randrange(1, len(x))
                pres += [x[:i] + ' ' + x[i:], x[:i] + '-' + x[i:]]
            for y in pres:
                r = lib.call(mod.validate, y, **kw)
                emit.trace([{'kind': 'val', 'f': f, 'x': lib.cps(y), 'r': sl(r)}],
                           {'m': FORMATS[f], 'w': y, 'how': 'constructed by the spec (%s)' % sub, 'site': r['site'], 'outcome': r['cls'] or lib.from_cps(r['v'])})
                emit.count('val')
                emit.count('made')
    elif kind == 'block':
        f, blocks = unit[1], unit[2]
        from stdnum import issn, imo, ean
        gen = {'issn': (issn.calc_check_digit, 7), 'imo': (imo.calc_check_digit, 6), 'ean8': (ean.calc_check_digit, 7)}[f]
        for lo in blocks:
            n = 10 ** 4
            checks = [ord(gen[0](('%0' + str(gen[1]) + 'd') % q)) for q in range(lo, lo + n)]
            emit.trace([{'kind': 'block', 'f': f, 'lo': lo, 'w': gen[1], 'checks': checks}],
                       {'m': f, 'w': 'payloads %d..%d' % (lo, lo + n - 1), 'how': 'block digest', 'site': ''})
            emit.count('block_payloads', n)


B58A = '123456789ABCDEFGHJKLMNPQRSTUVWXYZabcdefghijkmnopqrstuvwxyz'
B32A = 'qpzry9x8gf2tvdw0s3jn54khce6mua7l'


def b58check(version, payload20):
    import hashlib
    raw = bytes([version]) + payload20
    raw += hashlib.sha256(hashlib.sha256(raw).digest()).digest()[:4]
    n = int.from_bytes(raw, 'big')
    out = ''
    while n:
        n, r = divmod(n, 58)
        out = B58A[r] + out
    return '1' * (len(raw) - len(raw.lstrip(b'\0'))) + out


def bech32_polymod(values):
    gen = [0x3b6a57b2, 0x26508e6d, 0x1ea119fa, 0x3d4233dd, 0x2a1462b3]
    chk = 1
    for v in values:
        b = chk >> 25
        chk = (chk & 0x1ffffff) << 5 ^ v
        for i in range(5):
            chk ^= gen[i] if ((b >> i) & 1) else 0
    return chk


def bech32_addr(version, data5):
    """'bc1' + version + data symbols + checksum (BIP 173), for any list of 5-bit symbols."""
    hrp = [3, 3, 0, 2, 3]
    vals = [version] + list(data5)
    pm = bech32_polymod(hrp + vals + [0] * 6) ^ 1
    chk = [(pm >> 5 * (5 - i)) & 31 for i in range(6)]
    return 'bc1' + ''.join(B32A[v] for v in vals + chk)


def to5(program):
    acc = bits = 0
    out = []
    for b in program:
        acc = (acc << 8) | b
        bits += 8
        while bits >= 5:
            bits -= 5
            out.append((acc >> bits) & 31)
    if bits:
        out.append((acc << (5 - bits)) & 31)
    return out


def bitcoin_worker(unit, emit):
    _, items, p = unit
    lib.load_stdnum()
    from stdnum import bitcoin
    for x, how in items:
        r = lib.call(bitcoin.validate, x)
        emit.trace([{'x': lib.cps(x), 'r': sl(r)}], {'m': 'bitcoin', 'w': x, 'how': how, 'site': r['site'], 'outcome': r['cls'] or 'accepted'})
        emit.count('bitcoin')


def bitcoin_inputs(rnd, quick):
    lib.load_stdnum()
    from stdnum import bitcoin
    items = []
    corp = [c for c in lib.corpus('bitcoin', bitcoin) if c.isascii()]
    n_addr = 12 if quick else 200
    addrs = list(corp)
    for _ in range(n_addr):
        addrs.append(b58check(rnd.choice([0, 5]), bytes(rnd.randrange(256) for _ in range(20))))
    addrs.append(b58check(0, bytes(20)))
    addrs.append(b58check(0, bytes([0, 0, 0]) + bytes(rnd.randrange(256) for _ in range(17))))
    addrs.append(b58check(111, bytes(20)))                    # testnet version byte: starts with m/n
    for a in addrs:
        items.append((a, 'address'))
    for a in addrs[:len(addrs) if not quick else 10]:
        if a[0] in '13':
            for _ in range(4 if quick else 12):
                i = rnd.randrange(len(a))
                items.append((a[:i] + rnd.choice(B58A + '0OIl') + a[i + 1:], 'base58 edit@%d' % i))
            items.append((a[:-1], 'truncate'))
            items.append((a + '1', 'extend'))
            items.append((' ' + a + ' ', 'padded'))
            items.append((a[:5] + ' ' + a[5:], 'inner space'))
            items.append((a.upper(), 'upper'))
    # bech32: every witness version x program lengths, padding edge cases
    for ver in range(0, 18):
        for plen in (1, 2, 3, 19, 20, 21, 32, 33, 39, 40, 41):
            if quick and rnd.random() < 0.5:
                continue
            prog = bytes(rnd.randrange(256) for _ in range(plen))
            d5 = to5(prog)
            if ver < 32:
                items.append((bech32_addr(ver, d5), 'bech32 v%d program %d bytes' % (ver, plen)))
        for nsym in (1, 9, 17, 25, 33, 8, 16, 40):            # a whole spare zero symbol / non-zero padding
            d5 = [rnd.randrange(32) for _ in range(nsym - 1)] + [0]
            items.append((bech32_addr(ver % 17, d5), 'bech32 %d symbols, last symbol zero' % nsym))
            d5b = [rnd.randrange(32) for _ in range(nsym - 1)] + [rnd.randrange(1, 32)]
            items.append((bech32_addr(ver % 17, d5b), 'bech32 %d symbols, last symbol non-zero' % nsym))
    bs = [x for x, h in items if x.startswith('bc1')]
    for a in rnd.sample(bs, min(len(bs), 30 if quick else 300)):
        i = rnd.randrange(3, len(a))
        items.append((a[:i] + rnd.choice(B32A + 'bio1') + a[i + 1:], 'bech32 edit@%d' % i))
        items.append((a.upper(), 'bech32 upper'))
        items.append((a[:6] + a[6:].upper(), 'bech32 mixed case'))
        items.append((a[:10] + ' ' + a[10:], 'bech32 inner space'))
    for x in ('', '1', '3', 'bc1', 'bc1q', '2NEWaddress', 'tb1qw508d6qejxtdg4y5r3zarvary0c5xw7kxpjzsx', 'BC1', '1' * 34, '3' * 34, 'bc1' + 'q' * 87, 'bc1' + 'q' * 88):
        items.append((x, 'degenerate'))
    return items


def written_table(path, iso_path):
    """two-letter codes of the statements that assign `_country_codes` in the module at `path`, plus the ISO 3166 list literal
    of isin.py when those statements mention it; [] when the table is not spelled as literals"""
    import ast

    def codes(node):
        return [n.value for n in ast.walk(node) if isinstance(n, ast.Constant) and isinstance(n.value, str) and len(n.value) == 2 and n.value.isupper()]

    def statements(tree, name):
        for node in tree.body:
            tg = node.targets if isinstance(node, ast.Assign) else [node.target] if isinstance(node, (ast.AugAssign, ast.AnnAssign)) else []
            if any(isinstance(t, ast.Name) and t.id == name for t in tg) and getattr(node, 'value', None) is not None:
                yield node
    try:
        tree = ast.parse(open(path, encoding='utf-8').read())
        iso_tree = ast.parse(open(iso_path, encoding='utf-8').read())
    except (OSError, SyntaxError):
        return []
    own, uses_iso = [], False
    for node in statements(tree, '_country_codes'):
        own += codes(node.value)
        uses_iso = uses_iso or any(isinstance(n, ast.Name) and n.id == '_iso_3116_1_country_codes' for n in ast.walk(node.value))
    iso = [c for node in statements(iso_tree, '_iso_3116_1_country_codes') for c in codes(node.value)]
    if not own or (uses_iso and not iso):
        return []
    return sorted(set(own + (iso if uses_iso else [])))


def main():
    chk = run.Check(PROP)
    quick = chk.tier == 'quick'
    lib.load_stdnum()
    from stdnum import isin, isrc
    tfile = os.path.join(chk.work, 'tables.json')
    with open(tfile, 'w') as fh:
        import re
        from vlib import ndb
        with open(os.path.join(lib.REPO, 'stdnum', 'iban.dat'), encoding='utf-8') as f2:
            tree, _ = ndb.parse_text(f2.read())
        ib = []
        for e in tree:
            bban = dict(e['props']).get('bban', '')
            toks = [[int(n), ord(t)] for n, t in re.findall(r'(\d+)!([nac])', bban)]
            if ''.join('%d!%s' % (n, chr(t)) for n, t in toks) != bban:
                toks = [[999, 110]]        # a structure the independent reading does not understand admits nothing
            ib.append({'cc': e['low'], 'tokens': toks})
        # the country code tables AS WRITTEN in the two source files (the literal lists), not as found in the running
        # interpreter: a table that is changed at run time (one module extending a list that another one shares) must show as
        # a disagreement, not be inherited by the oracle.  Where the source does not spell the table as literals, the run-time
        # table is the only reading there is.
        run_tabs = {'isin': sorted(getattr(isin, '_country_codes', [])), 'isrc': sorted(getattr(isrc, '_country_codes', []))}
        tabs = dict(run_tabs)
        for fmt in ('isin', 'isrc'):
            w = written_table(os.path.join(lib.REPO, 'stdnum', fmt + '.py'), os.path.join(lib.REPO, 'stdnum', 'isin.py'))
            if w:
                tabs[fmt] = w
        chk.cov['country_tables'] = {f: {'as_written': len(tabs[f]), 'as_executed': len(run_tabs[f]), 'equal': tabs[f] == run_tabs[f]} for f in tabs}
        json.dump({'isin_cc': sorted(lib.cps(c) for c in tabs['isin']),
                   'isrc_cc': sorted(lib.cps(c) for c in tabs['isrc']), 'iban': ib}, fh)
    p_codes = sorted(set(tabs['isin']) | set(tabs['isrc']) | set(run_tabs['isin']) | set(run_tabs['isrc']))
    skip_formats = [f for f, tab in (('isin', getattr(isin, '_country_codes', None)), ('isrc', getattr(isrc, '_country_codes', None))) if not tab]
    chk.cov['formats_skipped_for_missing_tables'] = skip_formats
    rnd = random.Random(chk.seed)
    p = {'seed': chk.seed, 'bases': 8 if quick else 120, 'random': 60 if quick else 3000, 'codes': p_codes}
    units = []
    for f in sorted(FORMATS):
        if f in skip_formats:
            continue
        for part in range(4):
            units.append(('val', f, part, 4, p))
    # spec -> code: identifiers constructed by the transcription itself (every length / branch of every format)
    nmade = 1500 if quick else 40000
    rg = tlc.run('Gen_Formats', workdir=chk.work, workers=1, env={'TABLE_FILE': tfile}, simulate='num=%d' % nmade, depth=3, seed=chk.seed)
    if rg.violated or rg.error:
        raise run.MachineryError('Gen_Formats: the generator disagrees with the transcription (%s)\n%s' % (rg.violated, rg.out[-1500:]))
    made = []
    for ln in rg.prints:
        v = tlc.parse_value(ln)
        if v and v[0] == 'MADE':
            made.append((v[1], v[2], lib.from_cps(v[3])))
    if len(made) < nmade:
        raise run.MachineryError('Gen_Formats produced %d identifiers' % len(made))
    chk.cov['stages'].append({'stage': 'GEN', 'spec': 'Gen_Formats', 'identifiers': len(made)})
    for i in range(16):
        units.append(('made', made[i::16], p))
    spaces = {'issn': 10 ** 7, 'imo': 10 ** 6, 'ean8': 10 ** 7}
    for f, size in spaces.items():
        allb = list(range(0, size, 10 ** 4))
        blocks = rnd.sample(allb, 24) if quick else allb
        for i in range(0, len(blocks), 6 if quick else 40):
            units.append(('block', f, blocks[i:i + (6 if quick else 40)], p))
    shards = chk.drive(units, worker)
    extra = run.merge_extra(shards)
    rej = chk.validate('Trace_Formats', shards, env={'TABLE_FILE': tfile}, own_clauses={'A1', 'A2', 'A3', 'B1'}, heap='3g')
    chk.report(rej)
    # ---- Bitcoin (Base58Check with SHA-256 in TLA+, Bech32)
    items = bitcoin_inputs(rnd, quick)
    bunits = [('bitcoin', items[i::16], p) for i in range(16)]
    bsh = chk.drive(bunits, bitcoin_worker)
    extra_b = run.merge_extra(bsh)
    rej = chk.validate('Trace_Bitcoin', bsh, own_clauses={'A1', 'A2'}, heap='3g', label='bitcoin')
    chk.report(rej)
    extra['val'] = extra.get('val', 0) + extra_b.get('bitcoin', 0)
    chk.assumptions += ['IBAN is compared with check_country=False (the national layer is C09); inputs are ASCII plus foreign digits/letters that the clean-up table does not translate',
                        'country code tables of ISIN and ISRC are data taken from the repository as written in the two source files (the literal lists, not the tables found in the running interpreter)']
    return chk.finish(samples=first_meta(shards), distinct_nontrivial=extra.get('val', 0) + extra.get('block_payloads', 0),
                      exhaustive=not quick,
                      rule='per format: corpus presentations, every single-character replacement at every position over 0-9A-Z, deletions, insertions, '
                           'adjacent swaps, hostile ASCII characters appended/prepended/inserted, case and padding variants, random strings at and '
                           'around the format lengths; block digests of the complete ISSN / IMO / EAN-8 payload spaces (sampled in quick)',
                      extra={'formats': sorted(FORMATS) + ['bitcoin'], 'constructed_by_spec': extra.get('made', 0), 'validate_events': extra.get('val', 0), 'block_payloads': extra.get('block_payloads', 0)})


if __name__ == '__main__':
    run.main(main, PROP)
