"""Stage shared by C05/C17: national validators against the transcriptions of National.tla (observations)."""
import random
from vlib import lib

MODULES = ['nl.bsn', 'nl.onderwijsnummer', 'pl.nip', 'pl.regon', 'pt.nif', 'dk.cvr', 'fi.alv', 'no.orgnr', 'es.dni', 'ee.kmkr', 'mt.vat',
           'lu.tva', 'gr.vat', 'hu.anum', 'be.vat', 'si.ddv', 'at.uid', 'br.cpf', 'tr.tckimlik', 'ch.uid', 'it.iva', 'se.orgnr', 'fr.siren',
           'ca.sin', 'il.idnr', 'co.nit', 'de.vat', 'hr.oib', 'ro.cui', 'ru.inn', 'us.rtn', 'au.abn', 'au.acn', 'au.tfn', 'jp.cn',
           'ar.cuit', 'al.nipt', 'by.unp', 'cl.rut', 'cy.vat', 'ec.ci', 'ee.registrikood', 'gb.nhs', 'gb.utr', 'gt.nit', 'is_.vsk',
           'kr.brn', 'me.pib', 'mk.edb', 'nz.ird', 'pe.ruc', 'py.ruc', 'rs.pib', 'tr.vkn', 'ua.edrpou', 'uy.rut', 've.rif',
           'vn.mst', 'za.tin', 'th.pin', 'lt.pvm', 'fi.veronumero', 'eg.tn', 'ma.ice',
           'es.nie', 'es.cif', 'gb.vat', 'fr.tva', 'ie.pps', 'cr.cpf', 'cr.cpj', 'do.rnc', 'fi.associationid', 'fr.siret', 'in_.pan',
           'ke.pin', 'li.peid', 'md.idno', 'nl.btw', 'no.mva',
           'ar.dni', 'ar.cbu', 'at.businessid', 'at.vnr', 'br.cnpj', 'ca.bn', 'ca.bc_phn', 'ch.esr', 'ch.vat', 'cn.uscc', 'cr.cr',
           'de.idnr', 'de.wkn', 'dz.nif', 'eu.banknote', 'eu.eic', 'fo.vn',
           'ec.ruc', 'es.ccc', 'es.postal_code', 'eu.ecnumber', 'eu.oss', 'gh.tin', 'gn.nifp', 'il.hp', 'in_.aadhaar', 'in_.vid',
           'in_.epic', 'it.aic', 'mc.tva', 'nl.postcode', 'nl.brin', 'nl.identiteitskaartnummer', 'no.kontonr', 'pk.cnic',
           'ad.nrt', 'bg.pnf', 'do.ncf', 'es.cae', 'fi.ytunnus', 'fr.nif', 'gb.upn', 'ie.vat', 'pe.cui', 'pt.cc', 'ru.ogrn',
           'se.postnummer', 'se.vat', 'si.maticna', 'sm.coe', 'sv.nit', 'th.moa', 'at.tin',
           'bg.egn', 'cu.ni', 'cz.rc', 'sk.rc', 'lt.asmens', 'ro.cnp', 'kr.rrn', 'gr.amka', 'is_.kennitala', 'dk.cpr', 'za.idnr',
           'es.cups', 'es.nif', 'es.referenciacatastral', 'fr.nir', 'in_.gstin', 'si.emso', 'tn.mf', 'tw.ubn', 'ua.rntrc', 'us.ptin',
           'bg.vat', 'cz.dic', 'sk.dph', 'ro.cf', 'th.tin', 'it.codicefiscale', 'mu.nid', 'eu.at_02', 'mx.rfc', 'mx.curp', 'se.personnummer', 'cz.bankaccount',
           'no.fodselsnummer', 'fi.hetu', 'ch.ssn', 'lv.pvn', 'pl.pesel', 'ee.ik',
           'iso6346', 'be.eid', 'de.stnr', 'sg.uen', 'ro.onrc', 'id.nik', 'id.npwp', 'cn.ric', 'be.nn', 'be.bis', 'us.ssn', 'us.itin', 'us.atin', 'us.ein', 'nz.bankaccount', 'my.nric', 'mac', 'imsi', 'cfi', 'isil', 'at.postleitzahl', 'isan', 'meid', 'eu.nace', 'be.ssn']


# the form a module's validator judges, where that is not compact(x): ISAN's compact() drops the check characters
# (MEID's compact() converts to hexadecimal and drops the check digit; format() with an empty separator is the cleaned form)
FULL_FORM = {'isan': lambda mod, x: mod.compact(x, strip_check_digits=False),
             'meid': lambda mod, x: mod.format(x, separator='')}


def worker(unit, emit):
    name, p = unit[1], unit[2]
    mod = lib.module(name)
    rnd = random.Random('%s/nat/%s' % (p['seed'], name))
    corp = lib.pick(lib.corpus(name, mod), p['bases'], rnd)
    full = FULL_FORM.get(name)
    import datetime
    year = datetime.date.today().year      # the system date is an argument of some formats (N3)
    compact = (lambda x: full(mod, x)) if full else mod.compact

    def rec(x, how):
        rc = lib.call(compact, x)
        if rc['k'] != 'ret' or rc['t'] != 'str' or any(c > 127 for c in rc['v']):
            return
        r = lib.call(mod.validate, x)
        emit.trace([{'m': name, 'c': rc['v'], 'y': year, 'r': {'k': r['k'], 't': r['t'], 'v': r['v']}}],
                   {'m': name, 'w': x, 'how': how, 'site': r['site'], 'outcome': r['cls'] or 'accepted'})
        emit.count('national')
    lens = set()
    for b in corp:
        rec(b, 'corpus')
        try:
            c = compact(b)
        except Exception:
            continue
        lens.add(len(c))
        for i in range(len(c)):
            for d in '0123456789':
                if d != c[i]:
                    rec(c[:i] + d + c[i + 1:], 'rep@%d' % i)
            for d in 'ABHKPWXZ|+':      # letters and symbols: check letters, type letters, characters a sloppy regex lets through
                if d != c[i]:
                    rec(c[:i] + d + c[i + 1:], 'rep@%d' % i)
            rec(c[:i] + c[i + 1:], 'del@%d' % i)
            if i + 1 < len(c):
                rec(c[:i] + c[i + 1] + c[i] + c[i + 2:], 'swap@%d' % i)
        if name in ('be.nn', 'be.bis', 'be.ssn') and len(c) == 11 and c.isdigit():
            # both sides of the clock boundary: birth years around the current one, completed with the check digits of either century
            for yy in sorted({(year + d) % 100 for d in (-1, 0, 1, 2)} | {99, 0}):
                n9 = '%02d' % yy + c[2:9]
                for pre in ('', '2'):
                    rec(n9 + '%02d' % (97 - int(pre + n9) % 97), 'year %02d, check digits of century %s' % (yy, '2000' if pre else '1900'))
        rec(c + '0', 'extend')
        rec('0' + c, 'prefix 0')
    for n in sorted(lens):
        template = corp[0] if corp else '0' * n
        try:
            t = compact(template)
        except Exception:
            t = '0' * n
        for _ in range(p['random']):
            # random digits, keeping the non-digit characters of a real number (letters such as U, CHE) in place
            x = ''.join(rnd.choice('0123456789') if (i >= len(t) or t[i].isdigit()) else t[i] for i in range(n))
            rec(x, 'random digits')
    for x in ('', '0', '00000000', '000000000', '0000000000', '00000000000'):
        rec(x, 'degenerate')
