"""C05 -- check digit generators and validators agree.
(A) the generator/validator duality of the generic algorithms is model-checked on the extracted
automata (shared with C06: GenUniqueL2R / GenUniqueR2L / GenExists2 + conformance clause X3);
(C) for every bound (module, generator): p1/p2/p3 events recorded and judged by TLC
(Trace_CheckDigit.tla), the positional conventions being constants of the spec."""
import json, os, random, re
from vlib import lib, run, tlc
from props import api_common as ac
from props.c02 import first_meta

PROP = 'C05'
BIND = os.path.join(lib.VERIF, 'bindings', 'checkdigit.json')

CONV = {
    'last1': lambda v: (v[:-1], len(v) - 1, 1), 'last2': lambda v: (v[:-2], len(v) - 2, 2),
    'full_last1': lambda v: (v, len(v) - 1, 1), 'full_last2': lambda v: (v, len(v) - 2, 2),
    'first1': lambda v: (v[1:], 0, 1), 'last1_of_9': lambda v: (v[:8], 8, 1),
    'first2': lambda v: (v[2:], 0, 2), 'full_at2_2': lambda v: (v, 2, 2), 'skip3_last1': lambda v: (v[3:-1], len(v) - 1, 1),
    'first9_at9': lambda v: (v[:9], 9, 1),
}


def slice_row(row, v):
    """(payload given to the generator, index of the first check character, number of check characters) of v under a binding row"""
    conv = row['conv']
    bnd = row.get('b', [0, 0, 0, 1])
    if conv == 'cat':    # payload = concatenation of slices of v (0-based [a, b), b <= 0 from the end); check slice from b
        ck2 = len(v) + bnd[2] if bnd[2] < 0 else bnd[2]
        return ''.join(v[a:(len(v) + b if b <= 0 else b)] for a, b in row.get('pl', [])), ck2, bnd[3]
    if conv != 'gen':
        return CONV[conv](v)
    pa, pb, ck, cn = bnd
    pb2 = len(v) + pb if pb <= 0 else pb
    ck2 = len(v) + ck if ck < 0 else ck
    return v[pa:pb2], ck2, cn


def worker(unit, emit):
    key, row, p, vopts = unit
    name, fn = key.split('#')[0].split(':')
    mod = lib.module(name)
    f = getattr(mod, fn)
    conv = row['conv']
    bnd = row.get('b', [0, 0, 0, 1])

    either = bool(row.get('either'))
    cat_pl = row.get('pl', [])

    def slicer(v):
        return slice_row(row, v)
    excl = set(getattr(mod, row['exclude_attr'])) if row.get('exclude_attr') else set()
    rnd = random.Random('%s/%s' % (p['seed'], key))
    vals = []
    for c in lib.corpus(name, mod):
        try:
            v = mod.validate(c, **vopts)
        except Exception:
            continue
        if isinstance(v, str) and v not in vals and v not in excl and len(v) >= 3 and (not row.get('domain_re') or re.search(row['domain_re'], v)):
            vals.append(v)
    vals.sort()
    vals = lib.pick(vals, p['bases'], rnd)
    emit.count('generators')
    digits = '0123456789'
    letters = 'ABCDEFGHIJKLMNOPQRSTUVWXYZ'
    synth = []
    # shapes: numbers that were valid when the binding was made (bindings/checkdigit_shapes.json).  They only serve as
    # WELL-FORMED PAYLOADS for p3 -- a validator that drifted away from its generator no longer accepts them, so they
    # would otherwise silently drop out of the valid numbers and nothing of that format would be examined.
    shapes = [x for x in p['shapes'].get(key, []) if x not in vals and (not row.get('domain_re') or re.search(row['domain_re'], x))]
    queue = list(vals) + shapes
    done = 0
    while queue:
        v = queue.pop(0)
        done += 1
        is_synth = done > len(vals) + len(shapes)
        is_shape = len(vals) < done <= len(vals) + len(shapes)
        payload, lo, n = slicer(v)
        base = {'m': name, 'fn': fn, 'conv': conv, 'v': lib.cps(v), 'b': bnd, 'pl': cat_pl, 'either': either}
        r = lib.call(f, payload)
        gv = r['v'] if r['k'] == 'ret' and r['t'] == 'str' else []
        if not is_shape:
            emit.trace([dict(base, kind='p1', arg=lib.cps(payload), r=ac.slim(r))],
                       {'m': name, 'w': v, 'how': 'p1 %s(%r)' % (fn, payload), 'site': r['site']})
            emit.count('p1')
        # p2: every alternative at every check position
        if not p['skip_p2'].get(key) and not is_shape:
            for pos in range(n):
                orig = v[lo + pos]
                alpha = row.get('alphabet', digits)
                for a in alpha:
                    if a == orig:
                        continue
                    ed = v[:lo + pos] + a + v[lo + pos + 1:]
                    ra = lib.call(mod.is_valid, ed, **{k: w for k, w in vopts.items() if lib.has_kw(mod.is_valid, k)})
                    emit.trace([dict(base, kind='p2', pos=pos, alt=ord(a), ed=lib.cps(ed), g=gv,
                                     acc=ra['k'] == 'ret' and ra['b'] is True)],
                               {'m': name, 'w': ed, 'base': v, 'how': 'p2 check position %d -> %s' % (pos, a)})
                    emit.count('p2')
        # p3: well-formed payloads (shape of a valid number, payload characters re-drawn) + generated characters
        single = len([x for x in dir(mod) if x.startswith('calc_check') and callable(getattr(mod, x))]) == 1
        p3_ok = (single or bool(row.get('domain_re'))) and not is_synth and not row.get('no_p3')
        # head sweep (first number of the row only): every pair of leading digits (type, range, day or century fields) with every
        # character at the check position; whatever the validator accepts is a valid number, and p1 speaks about it -- a branch
        # of the validator that forgets the checksum for one such field value shows here
        if p3_ok and done == 1 and n == 1 and len(v) > 3 and v[0] in digits and v[1] in digits and not (lo <= 0 < lo + n or lo <= 1 < lo + n):
            for hd in range(100):
                w0 = '%02d' % hd + v[2:]
                if (row.get('domain_re') and not re.search(row['domain_re'], w0)) or (row.get('p3_domain_re') and not re.search(row['p3_domain_re'], w0)):
                    continue
                for a in row.get('alphabet', digits):
                    cand = w0[:lo] + a + w0[lo + 1:]
                    if cand in excl:
                        continue
                    rc = lib.call(mod.validate, cand, **vopts)
                    if rc['k'] == 'ret' and rc['t'] == 'str' and lib.from_cps(rc['v']) == cand:
                        pl_c = slicer(cand)[0]
                        r_c = lib.call(f, pl_c)
                        emit.trace([dict(base, v=lib.cps(cand), kind='p1', arg=lib.cps(pl_c), r=ac.slim(r_c))],
                                   {'m': name, 'w': cand, 'how': 'p1 %s(%r) (head sweep)' % (fn, pl_c), 'site': r_c['site']})
                        emit.count('p1')
                        emit.count('head_sweep_valid')
        for it in range(p['payloads'] + 1 if p3_ok else 0):
            w = list(v)
            k = 1 + rnd.randrange(3) if it else 0     # first the payload of v itself
            for _i in range(k):
                i = rnd.randrange(len(w))
                if lo <= i < lo + n:
                    continue
                if w[i] in digits:
                    w[i] = rnd.choice(digits)
                elif w[i] in letters:
                    w[i] = rnd.choice(letters)
            w = ''.join(w)
            if row.get('domain_re') and not re.search(row['domain_re'], w):
                continue
            if row.get('p3_domain_re') and not re.search(row['p3_domain_re'], w):
                continue
            pl, lo2, n2 = slicer(w)
            if w in excl:
                continue
            g = lib.call(f, pl)
            if g['k'] == 'ret' and g['t'] == 'str':
                ed = w[:lo2] + lib.from_cps(g['v']) + w[lo2 + n2:]
            else:
                ed = w
            rv = lib.call(mod.validate, ed, **vopts)
            sm = rv['site'].split(':')[0].replace('stdnum/', '').replace('.py', '').replace('/', '.') if rv['site'] else ''
            emit.trace([dict(base, v=lib.cps(w), kind='p3', gen=ac.slim(g), ed=lib.cps(ed), r=ac.slim(rv), sitemod=sm)],
                       {'m': name, 'w': ed, 'how': 'p3 payload %r + %s' % (pl, fn), 'site': g['site'] or rv['site'],
                        'outcome': rv['cls'] or 'accepted'})
            emit.count('p3')
            # valid numbers found by SEARCHING the check position(s) over the check alphabet (not by the generator): these are
            # the numbers on which a validator that is laxer than its generator shows (every residue class gets visited)
            if n2 == 1 and not is_synth and len(synth) < p['synth']:
                for a in row.get('alphabet', digits):
                    cand = w[:lo2] + a + w[lo2 + 1:]
                    if cand in vals or cand in synth or cand == ed:
                        continue
                    rc = lib.call(mod.validate, cand, **vopts)
                    if rc['k'] == 'ret' and rc['t'] == 'str' and lib.from_cps(rc['v']) == cand:
                        synth.append(cand)
                        queue.append(cand)
                        emit.count('synthesised_valid_by_search')
            if rv['k'] == 'ret' and rv['t'] == 'str' and lib.from_cps(rv['v']) == ed and ed not in vals and ed not in synth \
                    and len(synth) < p['synth']:
                synth.append(ed)
                queue.append(ed)
                emit.count('synthesised_valid')


def main():
    chk = run.Check(PROP)
    quick = chk.tier == 'quick'
    with open(BIND) as fh:
        bind = json.load(fh)
    # (A) duality on the extracted automata of the generic algorithms: exactly one check character is accepted from
    # every state (model checking, any length), and it is the one the module's generator returns (conformance X3)
    from props import c06
    for inst in c06.instances('quick'):
        aut, ids, wit, apath = c06.mc_extracted(chk, inst)
        if aut is None:
            continue
        c06.conformance(chk, inst, aut, ids, wit, apath, 25 if quick else 300)
    shapes = json.load(open(os.path.join(lib.VERIF, 'bindings', 'checkdigit_shapes.json')))
    p = {'seed': chk.seed, 'shapes': shapes, 'bases': 15 if quick else 300, 'payloads': 10 if quick else 100, 'synth': 25 if quick else 400, 'skip_p2': bind.get('skip_p2', {})}
    units = []
    gone = []
    for key, row in sorted(bind['rows'].items()):
        name = key.split(':')[0]
        fn = key.split('#')[0].split(':')[1]
        try:
            if not callable(getattr(lib.module(name), fn)):
                raise AttributeError(fn)
        except (KeyError, AttributeError):
            gone.append(key)
            continue
        units.append((key, row, p, bind.get('validate_options', {}).get(name, {})))
    chk.cov['bound_generators_no_longer_present'] = gone
    shards = chk.drive(units, worker)
    extra = run.merge_extra(shards)
    rej = chk.validate('Trace_CheckDigit', shards, own_clauses={'P1', 'P2', 'P3'})
    chk.report(rej)
    # ---- stage (B): national validators against the independent transcriptions of National.tla.  This is growth of the
    # specification beyond the letter of C05: disagreements are recorded as observations in the evidence, not as violations.
    from props import national
    np_ = {'seed': chk.seed, 'bases': 6 if quick else 80, 'random': 150 if quick else 4000}
    # (an observation stage must never decide the check: a failure of its machinery is recorded, not raised)
    try:
        nsh = chk.drive([('nat', m, np_) for m in national.MODULES], national.worker)
        nrej = chk.validate('Trace_National', nsh, own_clauses={'N0', 'N1', 'N2', 'N3'}, label='national transcriptions (observation)')
        nextra = run.merge_extra(nsh)
        chk.cov['national_transcriptions'] = {'modules': national.MODULES, 'events': nextra.get('national', 0),
                                              'disagreements': sorted(set('%s %r (%s)' % (r['meta'].get('m'), r['meta'].get('w'), r['meta'].get('outcome')) for r in nrej))[:60]}
    except run.MachineryError as e:
        chk.cov['national_transcriptions'] = {'modules': national.MODULES, 'error': str(e)[:600]}
        chk.notes.append('the observation stage (national transcriptions) could not be evaluated: ' + str(e)[:200])
    return chk.finish(samples=first_meta(shards), distinct_nontrivial=extra.get('p1', 0) + extra.get('p2', 0) + extra.get('p3', 0),
                      rule='per bound generator: p1 on every picked valid number, p2 = every other character of the check alphabet at every '
                           'check position, p3 = payloads of the shape of valid numbers with 1-3 payload characters re-drawn, completed '
                           'with the generated character(s)',
                      extra={'bound_generators': extra.get('generators', 0), 'unbound_generators': sorted(bind.get('unbound', {})),
                             'p1': extra.get('p1', 0), 'p2': extra.get('p2', 0), 'p3': extra.get('p3', 0),
                             'head_sweep_valid': extra.get('head_sweep_valid', 0)})


if __name__ == '__main__':
    run.main(main, PROP)
