"""C01 -- validate()/is_valid() error contract.
GEN: TLC enumerates edit scripts (spec/Inputs.tla).  DRIVE: every module x bases x concretised
scripts (+ non-string values, truncations, long inputs, options, clocks), recording
validate/is_valid.  TRACE: TLC validates the sessions against Api.tla clauses V1 V2 V3."""
import random, sys, re, json, os
from vlib import lib, run, tlc, inputs
from props import api_common as ac

PROP = 'C01'
OWN = {'V1', 'V2', 'V3'}


def gen_scripts(chk, cfg, simulate=None, depth=None):
    if simulate:
        r = tlc.run('GenRnd', cfg, workdir=chk.work, workers=1, simulate=simulate, depth=depth, seed=chk.seed)
    else:
        r = tlc.run('Inputs', cfg, workdir=chk.work, workers=1)
        if not r.ok:
            raise run.MachineryError('generator %s failed: %s' % (cfg, r.out[-2000:]))
        chk.cov['states'] += r.distinct
        chk.cov['transitions'] += r.generated
    scripts = []
    seen = set()
    for ln in r.prints:
        v = tlc.parse_value(ln)
        if v and v[0] == 'SCRIPT':
            key = repr(v[1])
            if key not in seen:
                seen.add(key)
                scripts.append(v[1])
    if not scripts:
        raise run.MachineryError('generator %s produced no scripts\n%s' % (cfg, r.out[-2000:]))
    chk.cov['stages'].append({'stage': 'GEN', 'spec': 'Inputs', 'cfg': cfg, 'scripts': len(scripts),
                              'mode': 'simulate ' + simulate if simulate else 'exhaustive'})
    return scripts


def slicer(row, v):
    from props import c05
    return c05.slice_row(row, v)


def worker(unit, emit):
    if unit[0] == '__doctests__':
        return ac.doctest_traces(emit)
    name, scripts1, scripts2, p = unit
    mod = lib.module(name)
    rnd = random.Random('%s/%s' % (p['seed'], name))
    corp = lib.distinct_compact(name, mod, lib.corpus(name, mod))
    if not corp:
        emit.count('modules_without_corpus')
        corp = ['0']
    bases = lib.pick_bases(name, mod, corp, p['bases'], rnd, corpus_items=lib.corpus(name, mod))
    # numbers carrying a birth date: valid numbers for a few critical dates (leap days in and out of leap years, century turns)
    # as further bases -- the dictionary characters ('+' of the Swedish number, century letters) are then applied to them
    from props import c12
    if name in c12.POS and corp:
        try:
            v0 = mod.validate(corp[0])
            for date in ((2000, 2, 29), (1996, 2, 29), (1999, 12, 31), (2000, 1, 1)):
                bases = bases + [x for x in c12.with_date(mod, name, v0, date, rnd)[:1] if x not in bases]
        except Exception:
            pass
    if bases and bases[0].isascii():
        bases = bases + [x for x in lib.literal_bases(mod, (mod.compact(bases[0]) if hasattr(mod, 'compact') else bases[0])) if x not in bases]
    emit.count('modules')
    emit.count('bases', len(bases))

    def rec(value, desc, kw=None, clk=None):
        evs, rv, ri = ac.pair(name, mod, value, kw)
        site = rv['site'] if rv['k'] == 'exc' else (ri['site'] if ri and ri['k'] == 'exc' else '')
        cls = rv['cls'] if rv['k'] == 'exc' else ''
        emit.trace(evs, {'m': name, 'w': ac.describe_value(value), 'how': desc, 'site': site, 'exc': cls,
                         'o': ac.opt_id(kw or {}), 'clock': clk,
                         'ret': (lib.from_cps(rv['v'])[:80] if rv['t'] == 'str' else rv['t']) if rv['k'] == 'ret' else None})
        if rv['k'] == 'ret':
            emit.count('accepted')
        else:
            emit.count('rejected_or_raised')

    # the date fields of the documented numbers set to critical dates, everything else (separators such as the Swedish '+',
    # century digits, check digits) left as written: calendar arithmetic outside a try block shows here
    if name in c12.POS:
        yp, yl, mp, dp = c12.POS[name]
        for v_ in list(dict.fromkeys(bases))[:6]:
            try:
                c_ = mod.validate(v_)
            except Exception:
                continue
            if not isinstance(c_, str) or len(c_) < max(yp + yl, mp + 2, dp + 2):
                continue
            for (y_, m_, d_) in ((2000, 2, 29), (1996, 2, 29), (1900, 2, 29), (1999, 12, 31), (2000, 1, 1), (2001, 2, 29), (1980, 4, 31)):
                w_ = list(c_)
                w_[yp:yp + yl] = ('%0' + str(yl) + 'd') % (y_ % 10 ** yl)
                w_[mp:mp + 2] = '%02d' % m_
                w_[dp:dp + 2] = '%02d' % d_
                rec(''.join(w_), 'date fields set to %04d-%02d-%02d' % (y_, m_, d_))
    for bi, base in enumerate(bases):
        rec(base, 'base')
        # depth-1 scripts: every position
        for script in scripts1:
            hostile = script[0]['ch'] in inputs.HOSTILE or script[0]['ch'] in ('NO_SUPER', 'NO_CIRCLED') or script[0]['op'] in ('del', 'trunc', 'case')   # never thinned (str.isdigit() takes superscripts and circled digits for digits, int() does not)
            for s, d in inputs.concretise(base, script, rnd, k=p['k']):
                if not hostile and p['thin'] and rnd.random() > p['thin']:
                    continue
                rec(s, d)
        # depth-2 scripts (simulated by TLC): position classes
        for script in scripts2:
            for s, d in inputs.concretise(base, script, rnd, k=1):
                rec(s, d)
        # non-string values
        if bi == 0:
            for kind, v in inputs.non_strings(base):
                if kind == 'iter_chars':
                    rec(ac.Fresh(lambda b=base: (c for c in b), 'generator over %r' % base), 'kind ' + kind)
                else:
                    rec(v, 'kind ' + kind)
            # long inputs
            for n in p['long']:
                rec((base * (n // max(1, len(base)) + 1))[:n], 'repeat-to-%d' % n)
                rec('1' * n, 'digits-%d' % n)
                rec('A' * n, 'letters-%d' % n)
                rec(base + ' ' * n, 'pad-%d' % n)

            # surroundings
            for pre, post in ((' ', ' '), ('\t', '\n'), ('\n', ''), ('', '\n'), (' ', '　'), ('\x00', '')):
                rec(pre + base + post, 'surround')
            rec(base.lower(), 'lower')
            rec(base.upper(), 'upper')
            rec(base.swapcase(), 'swapcase')
            rec(base + base, 'doubled')
            rec(base[::-1], 'reversed')
        # a documented beginning (prefix, type digits, special ranges such as the 000 of Monaco in a French VAT number) of every
        # base in compact spelling, followed by very many digits: where a length test was dropped in front of an int()
        try:
            cb = mod.compact(base) if hasattr(mod, 'compact') else base
        except Exception:
            cb = base
        if isinstance(cb, str):
            for k in (2, 3, 5, 7):
                rec(cb[:k] + '1' * 5000, 'head-%d-digits-5000' % k)
            if bi == 0:      # ... and the short constants of the module source (special codes) at the first offsets
                for L in [q for q in inputs.literals(mod, minlen=2, maxlen=6, cap=60) if q.isalnum() and q.isascii()][:6]:
                    for off in range(0, 4):
                        rec(cb[:off] + L + '1' * 5000, 'head-%d-literal-%s-digits-5000' % (off, L))
        # string constants of the module (blacklisted letter pairs, type codes, court names) substituted for tokens of the base
        if bi == 0:
            for s_ in inputs.substitute_tokens(base, inputs.literals(mod, minlen=1, maxlen=12, cap=120))[:p['subst']]:
                rec(s_, 'literal-substitution')
        # dictionary characters (letters and symbols the module's own source mentions) at every position of the first base,
        # at both ends of the others
        alpha = inputs.module_alphabet(mod)
        for ch in alpha:
            spots = range(len(base)) if (bi == 0 and len(base) <= 24) else [0, len(base) - 1]
            for i in spots:
                if i < len(base) and base[i] != ch:
                    rec(base[:i] + ch + base[i + 1:], 'dictionary %r@%d' % (ch, i))
            rec(base + ch, 'dictionary %r appended' % ch)
            rec(ch + base, 'dictionary %r prepended' % ch)
        # payload edits with the check character(s) regenerated by the module's own generator (bound in
        # bindings/checkdigit.json): inputs that pass the checksum gate and reach the code behind it
        try:
            vcanon = mod.validate(base)
        except Exception:
            vcanon = None
        if isinstance(vcanon, str):
            for cand, d in ac.regenerated(name, mod, vcanon, alphabet=p['regen_alphabet']):
                rec(cand, d)
                for kw in ac.option_sets(name, mod)[1:]:     # behind the checksum gate under every option set too
                    rec(cand, d, kw)
        # options
        for kw in ac.option_sets(name, mod)[1:]:
            rec(base, 'option', kw)
            for script in scripts1[::p['opt_stride']]:
                for s, d in list(inputs.concretise(base, script, rnd, k=1))[:p['opt_cap']]:
                    rec(s, d, kw)
    # clocks
    if name in ac.CLOCK_MODULES:
        for today in ac.CLOCKS:
            with ac.clock(today):
                for base in bases:
                    for kw in ac.option_sets(name, mod):
                        rec(base, 'clock', kw, list(today))
                        for script in scripts1[::p['opt_stride']]:
                            for s, d in list(inputs.concretise(base, script, rnd, k=1))[:p['opt_cap']]:
                                rec(s, d, kw, list(today))


def main():
    chk = run.Check(PROP)
    quick = chk.tier == 'quick'
    # design level: the is_valid idiom gives the contract iff validate never returns a falsy value, never raises a foreign
    # exception, and is called with the caller's options (IsValidDesign.tla; the three hazards must be refuted)
    chk.mc('IsValidDesign', 'MC_IsValid_code', workers=2, label='the is_valid idiom under the assumptions')
    chk.mc('IsValidDesign', 'MC_IsValid_plain', workers=2, expect_violation='V3', label='hazard: validate returns an empty string (gs1_128)')
    chk.mc('IsValidDesign', 'MC_IsValid_leak', workers=2, expect_violation='V2', label='hazard: a foreign exception leaks')
    chk.mc('IsValidDesign', 'MC_IsValid_forgot_option', workers=2, expect_violation='V3', label='hazard: is_valid drops the option (gs1_128 separator)')
    scripts1 = gen_scripts(chk, 'Gen_Inputs1')
    scripts2 = gen_scripts(chk, 'Gen_Inputs2R', simulate='num=%d' % (60 if quick else 1500), depth=3)
    p = {'seed': chk.seed, 'bases': 2 if quick else 12, 'k': 1 if quick else 3, 'thin': 0.35 if quick else 0,
         'long': [4301, 5000] if quick else [4301, 5000, 100000], 'opt_stride': 7 if quick else 2,
         'opt_cap': 4 if quick else 12, 'subst': 150 if quick else 1500, 'regen_alphabet': '0123456789ABCDEFGHIJKLMNOPQRSTUVWXYZ' if not quick else '059ACEIKLOQSUXZ'}
    gens = {}
    with open(os.path.join(lib.VERIF, 'bindings', 'checkdigit.json')) as fh:
        for key, row in json.load(fh)['rows'].items():
            gens.setdefault(key.split(':')[0], []).append((key, row))
    p['gens'] = gens
    units = [(name, scripts1, scripts2, p) for name, _ in lib.modules()] + [('__doctests__',)]
    shards = chk.drive(units, worker)
    extra = run.merge_extra(shards)
    rej = chk.validate('Trace_Api', shards, own_clauses=OWN)
    chk.report(rej)
    chk.assumptions += ['CPython built-ins and the recorder (harness/vlib/lib.py call()) are trusted',
                        'infinite iterators are not fed as the number argument']
    samples = []
    for s in shards[:2]:
        with open(s['index']) as fh:
            for i, ln in enumerate(fh):
                if i in (0, 50, 500):
                    samples.append(__import__('json').loads(ln)[1])
    return chk.finish(samples=samples, distinct_nontrivial=extra.get('accepted', 0) + extra.get('rejected_or_raised', 0),
                      rule='micro-trace = validate+is_valid on one (module, value, options, clock); values are TLC-generated '
                           'edit scripts (depth 1 at every position, depth 2 simulated) concretised on corpus numbers, plus '
                           'non-string kinds, long inputs, surroundings; all count as non-trivial (distinct inputs)',
                      extra={'modules': extra.get('modules', 0), 'bases': extra.get('bases', 0),
                             'accepted_inputs': extra.get('accepted', 0),
                             'modules_without_corpus': extra.get('modules_without_corpus', 0),
                             'doctest_calls_validated': extra.get('doctest_calls', 0)})


if __name__ == '__main__':
    run.main(main, PROP)
