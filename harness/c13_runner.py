"""Executes one C13 job in a fresh interpreter: a call history (with in-place mutation of returned
containers), a single call (the pristine-interpreter oracle) or a round of threads making the same
first use (free running behind a barrier, or under a replayed schedule).  Prints JSON."""
import sys, json, threading, importlib, datetime, decimal

sys.dont_write_bytecode = True
from vlib import lib      # noqa: E402
lib.load_stdnum()
try:
    import stdnum_verif_hooks as vh
except ImportError:
    vh = None


def do_call(c):
    if c['mod'] == 'numdb':
        from stdnum import numdb
        reg = c['fn'].split(':', 1)[1]
        f = lambda q: numdb.get(reg).info(q)   # noqa: E731
    else:
        m = importlib.import_module('stdnum.' + c['mod'])
        f = getattr(m, c['fn'])
    try:
        val = f(*c['args'])
    except Exception as e:   # noqa: B902
        return None, 'EXC ' + type(e).__name__
    return val, json.dumps(lib.canon(val), sort_keys=True, ensure_ascii=True)


def mutate(val, depth=0):
    """Change every mutable container reachable from a returned value, in place."""
    if depth > 4:
        return
    if isinstance(val, dict):
        for v in list(val.values()):
            mutate(v, depth + 1)
        for k in list(val.keys()):
            val[k] = 'MUTATED'
        val['__extra__'] = 'MUTATED'
    elif isinstance(val, list):
        for v in val:
            mutate(v, depth + 1)
        val.append('MUTATED')
        if len(val) > 1:
            val[0] = 'MUTATED'
    elif isinstance(val, tuple):
        for v in val:
            mutate(v, depth + 1)
    elif isinstance(val, set):
        val.add('MUTATED')


class LineScheduler(object):
    """Replays a schedule at line granularity with sys.settrace: every 'line' event inside the cache functions is a
    step that must be granted by the schedule (a list of thread names).  A thread that has finished is skipped."""

    TARGETS = {('numdb.py', 'get'), ('vat.py', '_get_cc_module'), ('iban.py', '_get_cc_module'), ('vatin.py', '_get_cc_module'),
               ('util.py', 'get_cc_module')}

    def __init__(self, schedule):
        self.schedule = list(schedule)
        self.pos = 0
        self.cond = threading.Condition()
        self.done = set()
        self.steps = 0
        self.timeouts = 0

    def local(self, frame, event, arg):
        if event == 'line':
            self.step()
        return self.local

    def tracer(self, frame, event, arg):
        co = frame.f_code
        if event == 'call' and '/stdnum/' in co.co_filename and ((co.co_filename.rsplit('/', 1)[-1], co.co_name) in self.TARGETS
                                                                  or co.co_filename.endswith('/stdnum/util.py')):
            return self.local
        return None

    def step(self):
        me = threading.current_thread().name
        with self.cond:
            waited = 0.0
            while True:
                while self.pos < len(self.schedule) and self.schedule[self.pos] in self.done:
                    self.pos += 1
                if self.pos >= len(self.schedule) or self.schedule[self.pos] == me:
                    break
                self.cond.wait(0.02)
                waited += 0.02
                if waited > 2.0:
                    self.timeouts += 1
                    break
            self.steps += 1
            if self.pos < len(self.schedule) and self.schedule[self.pos] == me:
                self.pos += 1
            self.cond.notify_all()

    def finished(self):
        with self.cond:
            self.done.add(threading.current_thread().name)
            self.cond.notify_all()


def main():
    job = json.load(sys.stdin)
    out = {'results': [], 'hooklog': [], 'timeouts': 0}
    if job['kind'] in ('history', 'fresh'):
        if vh:
            vh.reset()
        for i, c in enumerate(job['calls'], 1):
            val, r = do_call(c)
            out['results'].append({'mod': c['mod'], 'fn': c['fn'], 'args': c['args'], 'r': r, 'step': i})
            if c.get('mutate'):
                mutate(val)
    elif job['kind'] == 'clock':
        # the system date as an argument: the same calls with the date set BEFORE the library is imported ('before': what a fresh
        # interpreter started on that day sees) and AFTER the modules were imported on another day ('after')
        from props import api_common as ac
        if job['when'] == 'before':
            sys.modules['datetime'] = ac._Clock(tuple(job['date']))
            for i, c in enumerate(job['calls'], 1):
                val, r = do_call(c)
                out['results'].append({'mod': c['mod'], 'fn': c['fn'], 'args': c['args'], 'r': r, 'step': i})
        else:
            for c in job['calls']:
                importlib.import_module('stdnum.' + c['mod'])
            with ac.clock(tuple(job['date'])):
                for i, c in enumerate(job['calls'], 1):
                    val, r = do_call(c)
                    out['results'].append({'mod': c['mod'], 'fn': c['fn'], 'args': c['args'], 'r': r, 'step': i})
    elif job['kind'] == 'gate':
        # import window: t1 makes the call first; its import of job['gate'] (a submodule such as stdnum.gb.vat) is held in
        # importlib._bootstrap._find_and_load_unlocked() after the module body has run (no longer marked as initialising) and
        # before the attribute on the parent package is set; t2 makes the same call in that window; then t1 continues and
        # both repeat the call.  Independent of the hooks.
        reached, opened = threading.Event(), threading.Event()
        res = {}

        def glocal(frame, event, arg):
            if event == 'line' and not reached.is_set():
                loc = frame.f_locals
                m = loc.get('module')
                if loc.get('name') == job['gate'] and loc.get('parent') and getattr(m, '__name__', '') == job['gate'] \
                        and not getattr(getattr(m, '__spec__', None), '_initializing', False):
                    reached.set()
                    opened.wait(10)
            return glocal

        body_file = '/' + job['gate'].replace('.', '/') + '.py'

        def blocal(frame, event, arg):
            if event == 'line' and not reached.is_set():
                reached.set()
                opened.wait(10)
            return blocal

        def gtracer(frame, event, arg):
            if job.get('gate_at') == 'body':
                # hold the first thread at the first line of the module body (the module is in sys.modules, still initialising)
                if event == 'call' and frame.f_code.co_name == '<module>' and frame.f_code.co_filename.endswith(body_file):
                    return blocal
                return None
            if event == 'call' and frame.f_code.co_name == '_find_and_load_unlocked':
                return glocal
            return None

        def gwork(name):
            if name == 't1':
                sys.settrace(gtracer)
            try:
                for i, c in enumerate(job['calls'], 1):
                    val, r = do_call(c)
                    res[(name, i)] = (c, r)
            finally:
                sys.settrace(None)
                if vh:
                    vh.thread_done()
        if vh:
            vh.reset(None)
        t1 = threading.Thread(target=gwork, name='t1', args=('t1',))
        t2 = threading.Thread(target=gwork, name='t2', args=('t2',))
        t1.start()
        out['gate_reached'] = reached.wait(10)
        t2.start()
        t2.join(3 if job.get('gate_at') == 'body' else 10)      # inside the body the second importer normally waits for the lock
        opened.set()
        t1.join()
        t2.join()
        for i, c in enumerate(job['calls'], 1):      # and once more, afterwards
            val, r = do_call(c)
            res[('t1', len(job['calls']) + i)] = (c, r)
        for (name, i), (c, r) in sorted(res.items()):
            out['results'].append({'mod': c['mod'], 'fn': c['fn'], 'args': c['args'], 'r': r, 'step': i, 'th': name})
    else:
        n = job['n']
        names = ['t%d' % (i + 1) for i in range(n)]
        if vh:
            vh.reset(job.get('schedule'))
        barrier = threading.Barrier(n)
        res = {}
        sys.setswitchinterval(1e-6)

        ls = LineScheduler(job['lines']) if job.get('lines') else None

        def work(name):
            try:
                if ls:
                    sys.settrace(ls.tracer)
                barrier.wait()
                mine = job['per_thread'][names.index(name) % len(job['per_thread'])] if job.get('per_thread') else job['calls']
                for i, c in enumerate(mine, 1):
                    val, r = do_call(c)
                    res[(name, i)] = (c, r)
            finally:
                if ls:
                    sys.settrace(None)
                    ls.finished()
                if vh:
                    vh.thread_done()
        ths = [threading.Thread(target=work, name=nm, args=(nm,)) for nm in names]
        for t in ths:
            t.start()
        for t in ths:
            t.join()
        for (name, i), (c, r) in sorted(res.items()):
            out['results'].append({'mod': c['mod'], 'fn': c['fn'], 'args': c['args'], 'r': r, 'step': i, 'th': name})
    if vh:
        out['hooklog'] = list(vh.log)
        out['timeouts'] = vh.timeouts
    if job.get('lines'):
        out['line_steps'] = ls.steps
        out['timeouts'] = out.get('timeouts', 0) + ls.timeouts
    json.dump(out, sys.stdout)


main()
