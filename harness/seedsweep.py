"""Applies every seeded change to the repository under test ($STDNUM_REPO, default /repo), runs the quick check of
the property it was written for (plus neighbouring checks where listed), undoes it, and writes seeded/RESULTS.json.
Do not run against /repo while other work uses it:
    vp run --with-repo -- sh -c 'STDNUM_REPO=$VP_RUN_REPO /venv/bin/python harness/seedsweep.py'"""
import json, os, re, subprocess, sys, time
HERE = os.path.dirname(os.path.dirname(os.path.abspath(__file__)))
REPO = os.environ.get('STDNUM_REPO', '/repo')
EXTRA = {'C06-1': ['C17'], 'C06-2': ['C05'], 'C05-1': ['C06'], 'C17-2': ['C06'], 'C17-4': ['C06'], 'C13-2': ['C10'], 'C09-2': ['C13'],
         'C07-3': ['C15'], 'C03-2': ['C09'], 'C12-4': ['C01'], 'C09-5': ['C13'], 'C18-5': ['C01'], 'C05-4': ['C06'], 'C06-4': ['C05'], 'C10-8': ['C13'], 'C11-9': ['C13'], 'C02-7': ['C16'], 'C17-6': ['C07'], 'C13-7': ['C12'], 'C02-9': ['C16'], 'C04-11': ['C11'], 'C12-10': ['C11'], 'C10-11': ['C13'], 'C04-15': ['C08', 'C05'], 'C13-12': ['C09']}


def main():
    os.chdir(HERE)
    only = sys.argv[1:]
    out = {}
    def round_of(d):
        try:
            return json.load(open(os.path.join('seeded', d, 'meta.json'))).get('round', 1)
        except Exception:
            return 1
    path = os.path.join(HERE, 'seeded', 'RESULTS.json')
    for d in sorted((x for x in os.listdir('seeded') if re.match(r'^C\d\d-\d+$', x)), key=lambda x: (round_of(x), x)):
        if only and d not in only:
            continue
        prop = d.split('-')[0]
        for chk in [prop] + EXTRA.get(d, []):
            patch = os.path.join(HERE, 'seeded', d, 'patch.diff')
            if subprocess.call(['git', '-C', REPO, 'apply', patch]) != 0:
                out['%s/%s' % (d, chk)] = {'error': 'patch does not apply'}
                continue
            t0 = time.time()
            try:
                p = subprocess.run(['./check', chk, '--tier', 'quick'], stdout=subprocess.PIPE, stderr=subprocess.STDOUT,
                                   env=dict(os.environ, STDNUM_REPO=REPO), timeout=3600)
                text = p.stdout.decode('utf-8', 'replace')
                rc = p.returncode
            finally:
                subprocess.call(['git', '-C', REPO, 'checkout', '--', '.'])
            viol = [ln for ln in text.splitlines() if ln.startswith('VIOLATION')]
            out['%s/%s' % (d, chk)] = {'exit': rc, 'violation_lines': len(viol), 'seconds': round(time.time() - t0),
                                     'first': viol[0].split('#', 1)[-1].strip()[:200] if viol else ''}
            print(d, chk, 'exit', rc, 'violations', len(viol), flush=True)
        # results are kept as they come (a long sweep may be cut short)
        try:
            cur = json.load(open(path)) if os.path.exists(path) else {}
        except ValueError:
            cur = {}
        cur.update(out)
        with open(path, 'w') as fh:
            json.dump(cur, fh, indent=1, sort_keys=True)
    path = os.path.join(HERE, 'seeded', 'RESULTS.json')
    old = {}
    if only and os.path.exists(path):
        try:
            old = json.load(open(path))
        except ValueError:
            old = {}
    old.update(out)
    with open(path, 'w') as fh:
        json.dump(old, fh, indent=1, sort_keys=True)


main()
