#!/bin/sh
# runs every quick check under several VERIF_SEED values and prints the verdict lines (development aid)
cd "$(dirname "$0")/.."
for s in "$@"; do
  for id in ${CHECKS:-C01 C02 C03 C04 C05 C06 C07 C08 C09 C10 C11 C12 C13 C14 C15 C16 C17 C18}; do
    VERIF_SEED=$s ./check $id --tier quick > /tmp/seedscan_$$.log 2>&1; rc=$?
    echo "seed=$s $id rc=$rc $(grep -c '^VIOLATION' /tmp/seedscan_$$.log) violations"
    grep '^VIOLATION\|MACHINERY' /tmp/seedscan_$$.log | cut -c1-300
  done
done
rm -f /tmp/seedscan_$$.log
