#!/bin/sh
# usage: harness/thoroughall.sh [ids...]  -- thorough tier of every (or the given) check, sequentially, against $STDNUM_REPO or /repo
cd "$(dirname "$0")/.."
IDS="${@:-C01 C02 C03 C04 C05 C06 C07 C08 C09 C10 C11 C12 C13 C14 C15 C16 C17 C18}"
for id in $IDS; do
  s=$(date +%s)
  ./check $id --tier thorough > /tmp/thorough_$id.log 2>&1; rc=$?
  e=$(date +%s)
  echo "$id rc=$rc $((e-s))s $(grep -c '^VIOLATION' /tmp/thorough_$id.log) violations $(grep -c '^KNOWN-FINDING' /tmp/thorough_$id.log) known"
  grep '^VIOLATION\|MACHINERY' /tmp/thorough_$id.log | head -5
  tail -1 /tmp/thorough_$id.log | cut -c1-200
done
