#!/bin/sh
# Applies every seeded change to the repository under test ($STDNUM_REPO, default /repo), runs the quick check
# of the property it was written for (and the extra checks listed), undoes it, and writes seeded/RESULTS.json.
# Never run against /repo while other work uses it: vp run --with-repo -- sh -c 'STDNUM_REPO=$VP_RUN_REPO sh harness/seedsweep.sh'
cd "$(dirname "$0")/.."
REPO="${STDNUM_REPO:-/repo}"
export STDNUM_REPO="$REPO"
OUT=seeded/RESULTS.json
echo "{" > $OUT.tmp
first=1
for d in seeded/C*-*; do
  id=$(basename $d)
  prop=$(echo $id | cut -d- -f1)
  extra=""
  case $id in C06-*|C05-1) extra="C05 C06 C17";; C17-*) extra="C06 C17";; C10-2|C13-2) extra="C10 C13";; C09-2) extra="C09 C13";; esac
  for chk in $prop $extra; do
    [ "$chk" = "$prop" ] || [ -n "$chk" ] || continue
    git -C "$REPO" apply "$PWD/$d/patch.diff" || { echo "apply failed $id"; continue; }
    ./check $chk --tier quick > /tmp/sweep_$$.log 2>&1; rc=$?
    git -C "$REPO" checkout -- .
    n=$(grep -c '^VIOLATION' /tmp/sweep_$$.log)
    firstv=$(grep '^VIOLATION' /tmp/sweep_$$.log | head -1 | sed 's/.*# //' | cut -c1-160 | sed 's/"/\\"/g')
    [ $first = 1 ] || echo "," >> $OUT.tmp
    first=0
    printf ' "%s/%s": {"exit": %s, "violation_lines": %s, "first": "%s"}' "$id" "$chk" "$rc" "$n" "$firstv" >> $OUT.tmp
    echo "$id $chk rc=$rc violations=$n"
  done
done
echo "" >> $OUT.tmp; echo "}" >> $OUT.tmp; mv $OUT.tmp $OUT; rm -f /tmp/sweep_$$.log
