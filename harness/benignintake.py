"""Verifies behaviour-preserving changes delivered by sub-agents (<out>/<k>/{patch.diff,equiv.py,notes.md}) in scratch clones
(patch applies, full test suite passes with its coverage gate, equiv.py says EQUIVALENT) and files them as
/verif/benign/<letter>-<k>/.   usage: benignintake.py <letter> <outdir>"""
import os, re, shutil, subprocess, sys
HERE = os.path.dirname(os.path.dirname(os.path.abspath(__file__)))
WT, ORIG = '/tmp/bwt', '/tmp/bwt_orig'


def sh(cmd, **kw):
    return subprocess.run(cmd, shell=True, stdout=subprocess.PIPE, stderr=subprocess.STDOUT, **kw)


letter, out = sys.argv[1], sys.argv[2]
for d in (WT, ORIG):
    shutil.rmtree(d, ignore_errors=True)
    assert sh('git clone -q /repo %s' % d).returncode == 0
try:
    for k in sorted(os.listdir(out)):
        src = os.path.join(out, k)
        patch = os.path.join(src, 'patch.diff')
        if not os.path.exists(patch):
            continue
        if sh('git -C %s apply %s' % (WT, patch)).returncode != 0:
            print(src, 'PATCH DOES NOT APPLY'); continue
        try:
            t = sh('cd %s && /venv/bin/python -m pytest -q -p no:cacheprovider 2>&1 | tail -4' % WT, timeout=1800)
            e = sh('/venv/bin/python %s %s %s 2>&1 | tail -2' % (os.path.join(src, 'equiv.py'), WT, ORIG), timeout=3600)
        finally:
            sh('git -C %s checkout -- . && git -C %s clean -fdq' % (WT, WT))
        tt, et = t.stdout.decode('utf-8', 'replace'), e.stdout.decode('utf-8', 'replace')
        ok = re.search(r'\d+ passed', tt) and 'failed' not in tt and 'Required test coverage' in tt and 'reached' in tt and 'EQUIVALENT' in et
        print(src, 'OK' if ok else 'REJECTED', '|', ' '.join(tt.split())[-120:], '|', et.strip()[-100:], flush=True)
        if ok:
            dst = os.path.join(HERE, 'benign', '%s-%s' % (letter, k))
            shutil.rmtree(dst, ignore_errors=True)
            os.makedirs(dst)
            for f in ('patch.diff', 'equiv.py', 'notes.md'):
                if os.path.exists(os.path.join(src, f)):
                    shutil.copy(os.path.join(src, f), dst)
finally:
    for d in (WT, ORIG):
        shutil.rmtree(d, ignore_errors=True)
