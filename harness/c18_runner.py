"""Runs a sequence of requests against online_check/stdnum.wsgi in one fresh interpreter and prints, per
request, what came back plus the independently computed set of accepting modules.  JSON in/out."""
import sys, json, os, io, re, hashlib, importlib.machinery, importlib.util, html

sys.dont_write_bytecode = True
from vlib import lib     # noqa: E402
lib.load_stdnum()
_real_stdout = sys.stdout
path = os.path.join(lib.REPO, 'online_check', 'stdnum.wsgi')
loader = importlib.machinery.SourceFileLoader('stdnum_wsgi_app', path)
spec = importlib.util.spec_from_loader('stdnum_wsgi_app', loader)
app = importlib.util.module_from_spec(spec)
loader.exec_module(app)
sys.stdout = _real_stdout
import stdnum   # noqa: E402
assert os.path.realpath(stdnum.__file__).startswith(os.path.realpath(lib.REPO)), stdnum.__file__
from stdnum.util import get_number_modules    # noqa: E402
import urllib.parse   # noqa: E402


INDEP = lib.independent_modules()     # enumerated by walking the package directory, sorted like pkgutil does


def one(req):
    environ = {'DOCUMENT_ROOT': os.path.join(lib.REPO, 'online_check'), 'SCRIPT_NAME': '/stdnum.wsgi', 'REQUEST_METHOD': 'GET',
               'QUERY_STRING': req['qs']}
    if req['ajax']:
        environ['HTTP_X_REQUESTED_WITH'] = 'XMLHttpRequest'
    got = {}

    def start_response(status, headers):
        got['status'] = status
        got['headers'] = headers
    loaded_before = bool(app._template)
    try:
        body = b''.join(app.application(environ, start_response))
        status = got.get('status', 'no status')
        ctype = dict(got.get('headers', [])).get('Content-Type', '')
        exc = ''
    except Exception as e:   # noqa: B902  (a WSGI server answers 500)
        body = b''
        status = '500 ' + type(e).__name__
        ctype = ''
        exc = lib.site_of(e) + ' ' + type(e).__name__ + ': ' + str(e)[:100]
    text = body.decode('utf-8', 'replace')
    # the number as the application sees it, and the accepting modules, computed independently
    params = urllib.parse.parse_qs(req['qs'])
    valid = []
    number = None
    if 'number' in params:
        number = params['number'][0]
        for mid, m in INDEP:
            try:
                if m.is_valid(number) is True:
                    valid.append(mid)
            except Exception:   # noqa: B902
                pass
    listed, parsed = [], False
    if req['ajax']:
        try:
            doc = json.loads(text)
            parsed = isinstance(doc, list)
            listed = [d.get('module') for d in doc] if parsed else []
        except Exception:   # noqa: B902
            parsed = False
    else:
        # every result item is '<li>NUMBER: <b>NAME</b><p>': compare the names, in order
        from stdnum.util import get_module_name
        byid = dict((mid, get_module_name(m)) for mid, m in INDEP)
        valid = [byid[i] for i in valid]
        for mm in re.finditer(r'<li>(.*?): <b>(.*?)</b><p>', text, re.S):
            listed.append(html.unescape(mm.group(2)))
    return {'status': status, 'ctype': ctype, 'body': text, 'h': hashlib.sha1(body).hexdigest(), 'valid': sorted(valid), 'listed': sorted(str(x) for x in listed),
            'parsed': parsed, 'exc': exc, 'tmpl_loaded_before': loaded_before, 'number': number}


def main():
    job = json.load(sys.stdin)
    out = [one(r) for r in job['requests']]
    json.dump(out, sys.stdout)


main()
