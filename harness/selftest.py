"""Binding self-test (development aid, not a registered check): shows that the trace specifications constrain VALUES.
For a handful of hand-made micro-traces a correct version must be accepted and each corrupted version must be rejected
by TLC with the expected clause.  Also shows that without the hooks (guard off) the C13 cache trace is rejected.
Usage: PYTHONPATH=harness /venv/bin/python harness/selftest.py   (exit 0 = every expectation met)"""
import json, os, sys, copy, shutil
from vlib import tlc, lib

WORK = os.path.join(lib.WORK_ROOT, 'selftest_%d' % os.getpid())
VE = ['stdnum.exceptions.InvalidFormat', 'stdnum.exceptions.ValidationError', 'builtins.ValueError', 'builtins.Exception']


def r_str(s):
    return {'k': 'ret', 't': 'str', 'v': lib.cps(s), 'b': False, 'mro': []}


def r_bool(b):
    return {'k': 'ret', 't': 'bool', 'v': [], 'b': b, 'mro': []}


def r_exc(mro):
    return {'k': 'exc', 't': '', 'v': [], 'b': False, 'mro': mro}


def run_trace(spec, events, env=None):
    os.makedirs(WORK, exist_ok=True)
    path = os.path.join(WORK, 't.ndjson')
    with open(path, 'w') as fh:
        for e in events:
            fh.write(json.dumps(e) + '\n')
    e = {'TRACE_FILE': path}
    e.update(env or {})
    r = tlc.run(spec, workdir=WORK, env=e, workers=1)
    rej = set()
    done = False
    for ln in r.prints:
        v = tlc.parse_value(ln)
        if v[0] == 'REJ':
            rej.update(v[3])
        if v[0] == 'DONE':
            done = v[1] == len(events) and v[2] == len(events)
    if not done:
        raise SystemExit('selftest: trace not consumed by %s\n%s' % (spec, r.out[-1500:]))
    return rej


def main():
    fails = []

    def expect(label, got, want):
        ok = (got == want) if isinstance(want, set) else (want in got)
        print('%-70s %s  (rejected clauses: %s)' % (label, 'ok' if ok else 'FAILED', sorted(got)))
        if not ok:
            fails.append(label)

    # ---- Trace_Api
    base = [{'tid': 1, 'm': 'issn', 'a': 'validate', 'o': '', 'dt': False, 'r': r_str('00249319')},
            {'tid': 1, 'm': 'issn', 'a': 'is_valid', 'o': '', 'dt': False, 'r': r_bool(True)},
            {'tid': 1, 'm': 'issn', 'a': 'revalidate', 'o': '', 'dt': False, 'r': r_str('00249319'), 'x': lib.cps('00249319')},
            {'tid': 2, 'm': 'issn', 'a': 'validate', 'o': '', 'dt': False, 'r': r_exc(VE)},
            {'tid': 2, 'm': 'issn', 'a': 'is_valid', 'o': '', 'dt': False, 'r': r_bool(False)}]
    expect('Api: correct sessions accepted', run_trace('Trace_Api', base), set())
    t = copy.deepcopy(base); t[1]['r'] = r_bool(False)
    expect('Api: is_valid flipped -> V3', run_trace('Trace_Api', t), 'V3')
    t = copy.deepcopy(base); t[3]['r'] = r_exc(['builtins.ValueError', 'builtins.Exception'])
    expect('Api: foreign exception -> V1', run_trace('Trace_Api', t), 'V1')
    t = copy.deepcopy(base); t[4]['r'] = {'k': 'ret', 't': 'int', 'v': [], 'b': False, 'mro': []}
    expect('Api: is_valid returns 0 instead of False -> V2', run_trace('Trace_Api', t), 'V2')
    t = copy.deepcopy(base); t[2]['r'] = r_str('00249318')
    expect('Api: one code point of the re-validated value changed -> F1', run_trace('Trace_Api', t), 'F1')
    t = copy.deepcopy(base); t[0]['r'] = r_str('00249319\n'); t[2]['x'] = lib.cps('00249319\n'); t[2]['r'] = r_str('00249319\n')
    expect('Api: trailing newline in the returned value -> F2', run_trace('Trace_Api', t), 'F2')
    t = copy.deepcopy(base); t[0]['r'] = r_str('0024931٩'); t[2]['x'] = lib.cps('0024931٩'); t[2]['r'] = r_str('0024931٩')
    expect('Api: Arabic-Indic digit in the returned value -> S1', run_trace('Trace_Api', t), 'S1')
    t = copy.deepcopy(base); t[2]['x'] = lib.cps('0024-9319')
    expect('Api: driver re-validated something else than the stored value -> M1', run_trace('Trace_Api', t), 'M1')
    # ---- Trace_Runtime
    def hk(seq, th, ev, key, oid=7, full=False):
        return {'tid': seq, 'run': 1, 'seq': seq, 'th': th, 'tseq': seq, 'cache': 'numdb', 'ev': ev, 'key': key, 'oid': oid, 'full': full, 'keys': ['iban'] + (['isbn'] if (seq >= 5 or (ev == 'store')) else [])}
    good = [hk(1, 't1', 'enter', 'isbn'), hk(2, 't1', 'miss', 'isbn'), hk(3, 't2', 'enter', 'isbn'), hk(4, 't2', 'miss', 'isbn'),
            hk(5, 't1', 'store', 'isbn', 7, True), hk(6, 't1', 'ret', 'isbn', 7, True), hk(7, 't2', 'store', 'isbn', 8, True),
            hk(8, 't2', 'ret', 'isbn', 8, True), hk(9, 't3', 'enter', 'isbn'), hk(10, 't3', 'ret', 'isbn', 8, True)]
    expect('Runtime: benign double miss accepted', run_trace('Trace_Runtime', good), set())
    t = [e for e in copy.deepcopy(good) if not (e['ev'] == 'enter')]
    for i, e in enumerate(t, 1):
        e['tid'] = i
    expect('Runtime: enter hooks removed -> A4', run_trace('Trace_Runtime', t), 'A4')
    t = copy.deepcopy(good); t.insert(9, dict(hk(10, 't3', 'miss', 'isbn'))); t[10]['seq'] = 11
    for i, e in enumerate(t, 1):
        e['tid'] = i
    expect('Runtime: a miss after a logged store -> A1', run_trace('Trace_Runtime', t), 'A1')
    t = copy.deepcopy(good); t[5]['full'] = False
    expect('Runtime: an incomplete registry is returned -> A3', run_trace('Trace_Runtime', t), 'A3')
    t = copy.deepcopy(good); t[4]['key'] = 'banks'
    expect('Runtime: stored under another key than missed -> A2', run_trace('Trace_Runtime', t), 'A2')
    # ---- Trace_Typo
    ev = {'tid': 1, 'm': 'issn', 'kind': 'subst', 'base': lib.cps('00249319'), 'ed': lib.cps('00249318'), 'bacc': True, 'acc': False}
    expect('Typo: rejected neighbour accepted by the spec', run_trace('Trace_Typo', [ev]), set())
    expect('Typo: accepted neighbour -> E1', run_trace('Trace_Typo', [dict(ev, acc=True)]), 'E1')
    expect('Typo: an edit that changes two characters -> M1', run_trace('Trace_Typo', [dict(ev, ed=lib.cps('00249388'))]), 'M1')
    # ---- Trace_History
    expect('History: equal results accepted', run_trace('Trace_History', [{'tid': 1, 'r': '"a"', 'fresh': '"a"'}]), set())
    expect('History: result differs from the pristine interpreter -> H1', run_trace('Trace_History', [{'tid': 1, 'r': '"a"', 'fresh': '"b"'}]), 'H1')
    shutil.rmtree(WORK, ignore_errors=True)
    if fails:
        print('SELFTEST FAILED: %r' % fails)
        return 1
    print('selftest ok')
    return 0


sys.exit(main())
