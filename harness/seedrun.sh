#!/bin/sh
# usage: harness/seedrun.sh <check id> <patch file> [tier]   -- apply a seeded change to /repo, run the check, undo it
ID="$1"; P="$2"; T="${3:-quick}"
cd /verif
if ! git -C /repo diff --quiet; then echo "repo dirty"; exit 9; fi
git -C /repo apply "$P" || { echo "APPLY-FAILED $P"; exit 8; }
./check "$ID" --tier "$T" > /tmp/seedrun_$$.log 2>&1; rc=$?
git -C /repo checkout -- .
grep -c '^VIOLATION' /tmp/seedrun_$$.log | sed "s|^|$ID $P rc=$rc violations=|"
grep '^VIOLATION\|MACHINERY' /tmp/seedrun_$$.log | head -4
rm -f /tmp/seedrun_$$.log
