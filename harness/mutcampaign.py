"""Systematic small mutants of the kind that break C01-C04/C15 while the tests keep passing (development aid; results are
summarised in DESIGN.md).  For every number module one mutant per operator:
  isdigit   isdigits(x)            -> x.isdigit()                  (expected: C01 or C15)
  nostrip   first `.strip()` in compact() removed                  (expected: C02 or C03)
  slashd    `[0-9]` in a regular expression -> `\\d`                (expected: C15 or C01)
  dollar    `\\Z` / no anchor... : `$`-anchored pattern keeps `$` but validate() loses its .strip() -- covered by nostrip
  fmtraw    format(): first `compact(number)` -> `number`          (expected: C04)
Each mutant is applied in a scratch clone, the module's own tests are run (doctests of the module + tests/test_<name>.doctest);
survivors are examined by the quick checks restricted to that module (VERIF_ONLY, VERIF_SKIP_MC).
usage: mutcampaign.py <operator> <lane> <nlanes> <outfile>"""
import json, os, re, subprocess, sys, shutil

OP, LANE, NLANES, OUT = sys.argv[1], int(sys.argv[2]), int(sys.argv[3]), sys.argv[4]
LANEDIR = '/tmp/mutlane_%s_%d' % (OP, LANE)
REPO = os.path.join(LANEDIR, 'repo')
VERIF = os.path.join(LANEDIR, 'verif')
CHECKS = {'isdigit': ['C01', 'C15'], 'nostrip': ['C02', 'C03', 'C01'], 'slashd': ['C15', 'C01'], 'fmtraw': ['C04'],
          'exc': ['C01', 'C12'], 'nodigits': ['C01', 'C15'], 'isvalidexc': ['C01'], 'valraw': ['C03', 'C02', 'C01'], 'convraw': ['C08']}[OP]


def sh(cmd, **kw):
    return subprocess.run(cmd, shell=True, stdout=subprocess.PIPE, stderr=subprocess.STDOUT, **kw)


def mutate(src):
    if OP == 'isdigit':
        m = re.search(r'isdigits\((number(?:\[[^\]]*\])?)\)', src)
        if m:
            return src[:m.start()] + m.group(1) + '.isdigit()' + src[m.end():]
    if OP == 'nostrip':
        m = re.search(r'def compact\(number\):.*?\n\n\n', src, re.S)
        if m and '.strip()' in m.group(0):
            body = m.group(0).replace('.strip()', '', 1)
            return src[:m.start()] + body + src[m.end():]
    if OP == 'slashd':
        m = re.search(r"(re\.(?:compile|match|search)\(\s*r?')([^'\n]*)\[0-9\]", src)
        if m:
            i = src.index('[0-9]', m.start())
            head = src[:m.start()] + m.group(1).rstrip("'")
            pat_start = m.start() + len(m.group(1))
            new = src[:i] + '\\d' + src[i + 5:]
            # make it a raw string if it is not
            if not m.group(1).endswith("r'"):
                q = m.start() + len(m.group(1)) - 1
                new = new[:q] + 'r' + new[q:]
            return new
    if OP == 'exc':          # a caught ValueError (calendar, int) is no longer translated into a ValidationError
        if 'except ValueError:' in src:
            return src.replace('except ValueError:', 'except KeyError:', 1)
    if OP == 'nodigits':     # the first digits-only guard disappears
        m = re.search(r'\n( +)if not isdigits\(number(?:\[[^\]]*\])?\):\n +raise InvalidFormat\(\)', src)
        if m:
            return src[:m.start()] + src[m.end():]
    if OP == 'isvalidexc':   # is_valid() catches only one kind of validation error
        m = re.search(r'def is_valid\(.*?except ValidationError:', src, re.S)
        if m:
            return src[:m.end() - len('ValidationError:')] + 'InvalidFormat:' + src[m.end():]
    if OP == 'valraw':       # validate() strips but no longer compacts
        m = re.search(r'def validate\(number[^)]*\):.*?(?=\n\n\n|\Z)', src, re.S)
        if m and 'number = compact(number)' in m.group(0):
            body = m.group(0).replace('number = compact(number)', 'number = number.strip()', 1)
            return src[:m.start()] + body + src[m.end():]
    if OP == 'convraw':      # a conversion function works on the text as written
        for m in re.finditer(r'def (?:to_\w+|from_\w+|convert)\(number[^)]*\):.*?(?=\n\n\n|\Z)', src, re.S):
            for pat in ('compact(number)', 'validate(number)'):
                if pat in m.group(0):
                    body = m.group(0).replace(pat, 'number', 1)
                    return src[:m.start()] + body + src[m.end():]
    if OP == 'fmtraw':
        m = re.search(r'def format\(number[^)]*\):.*?(?=\n\n\n|\Z)', src, re.S)
        if m and 'compact(number)' in m.group(0):
            body = m.group(0).replace('compact(number)', 'number', 1)
            return src[:m.start()] + body + src[m.end():]
    return None


def main():
    shutil.rmtree(LANEDIR, ignore_errors=True)
    os.makedirs(LANEDIR)
    assert sh('git clone -q /repo %s' % REPO).returncode == 0
    assert sh("rsync -a --exclude .git --exclude .work --exclude replays /verif/ %s/" % VERIF).returncode == 0
    files = []
    for root, dirs, fs in os.walk(os.path.join(REPO, 'stdnum')):
        dirs.sort()
        for f in sorted(fs):
            if f.endswith('.py') and f != '__init__.py':
                files.append(os.path.join(root, f))
    files = files[LANE::NLANES]
    with open(OUT, 'a') as out:
        for path in files:
            rel = os.path.relpath(path, REPO)
            name = rel[len('stdnum/'):-3].replace('/', '.')
            src = open(path).read()
            if os.environ.get('MUT_ONLY') and name not in os.environ['MUT_ONLY'].split(','):
                continue
            if 'def validate(' not in src:
                continue
            if OP == 'convraw' and not re.search(r'def (to_|from_|convert\()', src):
                continue
            new = mutate(src)
            if new is None or new == src:
                continue
            open(path, 'w').write(new)
            try:
                comp = sh('/venv/bin/python -c "import sys; sys.path.insert(0, %r); import stdnum.%s"' % (REPO, name))
                if comp.returncode != 0:
                    res = {'m': name, 'op': OP, 'status': 'does not import'}
                else:
                    tf = os.path.join(REPO, 'tests', 'test_%s.doctest' % name.replace('.', '_'))
                    t = sh('cd %s && /venv/bin/python -m pytest -q -p no:cacheprovider --no-cov %s %s 2>&1 | tail -3' % (REPO, rel, tf if os.path.exists(tf) else ''), timeout=600)
                    txt = t.stdout.decode('utf-8', 'replace')
                    if 'failed' in txt or 'error' in txt.lower():
                        res = {'m': name, 'op': OP, 'status': 'killed by tests'}
                    else:
                        res = {'m': name, 'op': OP, 'status': 'survived tests', 'checks': {}}
                        for c in CHECKS:
                            p = sh('cd %s && ./check %s' % (VERIF, c), env=dict(os.environ, STDNUM_REPO=REPO, VERIF_ONLY=name, VERIF_SKIP_MC='1') if OP != 'convraw' else dict(os.environ, STDNUM_REPO=REPO), timeout=1800)
                            o = p.stdout.decode('utf-8', 'replace')
                            v = [ln for ln in o.splitlines() if ln.startswith('VIOLATION')]
                            res['checks'][c] = {'exit': p.returncode, 'first': v[0].split('#', 1)[-1].strip()[:160] if v else ''}
                            if p.returncode == 2:
                                res['checks'][c]['tail'] = o[-400:]
                            if p.returncode == 1:
                                break
                        res['detected'] = any(x['exit'] == 1 for x in res['checks'].values())
                        d = sh('git -C %s diff' % REPO).stdout.decode()
                        res['diff'] = '\n'.join(l for l in d.splitlines() if l.startswith(('+', '-')) and not l.startswith(('+++', '---')))[:400]
            finally:
                sh('git -C %s checkout -- .' % REPO)
            out.write(json.dumps(res) + '\n')
            out.flush()
    shutil.rmtree(LANEDIR, ignore_errors=True)


main()
