"""Shared harness code: locating the library under test, module discovery, corpus of valid
numbers, the recorder (what was called, what came back), work directories.

Nothing in here judges a property.  The recorder writes down results; TLC decides."""
import os, sys, re, glob, json, time, hashlib, inspect, warnings, traceback, datetime, decimal, random

VERIF = os.path.dirname(os.path.dirname(os.path.dirname(os.path.abspath(__file__))))
REPO = os.environ.get('STDNUM_REPO', '/repo')
WORK_ROOT = os.path.join(VERIF, '.work')

warnings.simplefilter('ignore')


def load_stdnum():
    """Import stdnum from REPO's working tree (never from a stale install / bytecode)."""
    sys.dont_write_bytecode = True
    if sys.path[0] != REPO:
        sys.path.insert(0, REPO)
    import stdnum
    here = os.path.realpath(os.path.dirname(stdnum.__file__))
    want = os.path.realpath(os.path.join(REPO, 'stdnum'))
    if here != want:
        raise SystemExit('machinery error: stdnum imported from %s, expected %s' % (here, want))
    return stdnum


_modules = None


def modules():
    """All number modules, as the library itself discovers them: list of (short name, module)."""
    global _modules
    if _modules is None:
        load_stdnum()
        from stdnum.util import get_number_modules
        out = []
        for m in get_number_modules():
            out.append((m.__name__[len('stdnum.'):], m))
        out.sort(key=lambda t: t[0])
        # development aid (never set by a registered command): restrict the generic drivers to some modules
        only = [x for x in os.environ.get('VERIF_ONLY', '').split(',') if x]
        if only:
            out = [t for t in out if t[0] in only]
        _modules = out
    return _modules


def independent_modules():
    """The number modules found by walking the package directory (not by stdnum.util.get_number_modules):
    every stdnum/**/x.py whose imported module is itself (aliases excluded) and has validate()."""
    import importlib
    load_stdnum()
    base = os.path.join(REPO, 'stdnum')
    out = []
    for root, dirs, files in os.walk(base):
        dirs.sort()
        for f in sorted(files):
            if not f.endswith('.py') or f == '__init__.py':
                continue
            rel = os.path.relpath(os.path.join(root, f), base)[:-3].replace(os.sep, '.')
            try:
                with warnings.catch_warnings():
                    warnings.simplefilter('ignore')
                    m = importlib.import_module('stdnum.' + rel)
            except Exception:
                continue
            if getattr(m, '__name__', '') == 'stdnum.' + rel and hasattr(m, 'validate'):
                out.append((rel, m))
    out.sort(key=lambda t: t[0])
    return out


def module(name):
    for n, m in modules():
        if n == name:
            return m
    raise KeyError(name)


ALGORITHM_MODULES = ('luhn', 'verhoeff', 'damm', 'iso7064.mod_11_2', 'iso7064.mod_11_10',
                     'iso7064.mod_37_2', 'iso7064.mod_37_36', 'iso7064.mod_97_10')

# ---------------------------------------------------------------------------------------------
# corpus


def _doctest_files(name):
    short = name.replace('.', '_')
    cands = [short, short.replace('in__', 'in_').replace('is__', 'is_')]
    out = []
    for c in cands:
        p = os.path.join(REPO, 'tests', 'test_%s.doctest' % c)
        if os.path.exists(p) and p not in out:
            out.append(p)
    return out


def candidates(name, mod):
    texts = [mod.__doc__ or '']
    for f in _doctest_files(name):
        with open(f, encoding='utf-8') as fh:
            texts.append(fh.read())
    c = set()
    for t in texts:
        for mm in re.finditer(r"'([^'\n]{1,80})'", t):
            c.add(mm.group(1))
        for mm in re.finditer(r'"([^"\n]{1,80})"', t):
            c.add(mm.group(1))
        for line in t.splitlines():
            s = line.strip()
            if s.startswith('... '):
                s = s[4:]
            if 1 <= len(s) <= 80:
                c.add(s)
    return c


_corpus_cache = {}


def corpus(name, mod=None):
    """Strings from the module's docstring and doctest file that the module accepts today,
    sorted (deterministic)."""
    if name in _corpus_cache:
        return _corpus_cache[name]
    mod = mod or module(name)
    out = []
    for c in sorted(candidates(name, mod)):
        try:
            if mod.is_valid(c) is True:
                out.append(c)
        except Exception:
            pass
    # modules that document only one or two numbers: valid neighbours found by search (the characters the module's own source
    # mentions at every position, 0 / 9 at the first positions, the last character searched) -- other type letters, other
    # layouts, leading zeros; at most 12 more
    if len(out) < 6 and out and name not in ('vatin', 'eu.vat', 'gs1_128'):
        try:
            out += grow_valid(mod, out, 12)
        except Exception:
            pass
    # numbers SHORTER than any documented one that the validator nevertheless accepts (payloads of 1..6 equal digits completed
    # by the module's own generator where it is bound as "payload + one check character"): a missing length test shows in
    # format(), split() and the getters of such numbers
    if out and name not in ('vatin', 'eu.vat', 'gs1_128'):
        try:
            from props import api_common as _ac
            shortest = min(len(''.join(ch for ch in x if ch.isalnum())) for x in out)
            for key, row in _ac.generator_rows(name):
                if row.get('conv') != 'last1':
                    continue
                f = getattr(mod, key.split('#')[0].split(':')[1], None)
                for n in range(1, 7):
                    for d in '159':
                        try:
                            cand = d * n + f(d * n)
                            if len(cand) < shortest and mod.is_valid(cand) is True and cand not in out:
                                out.append(cand)
                                break
                        except Exception:
                            pass
        except Exception:
            pass
    # the country dispatchers have next to no numbers of their own: their corpus is derived from their constituents
    # (country code + documented valid numbers of every package that offers a `vat` module), as far as they accept them
    if name in ('vatin', 'eu.vat'):
        import pkgutil, stdnum
        from stdnum.util import get_cc_module
        for _f, cc, ispkg in sorted(pkgutil.iter_modules(stdnum.__path__), key=lambda t: t[1]):
            if not ispkg or len(cc.rstrip('_')) != 2:
                continue
            vm = get_cc_module(cc.rstrip('_'), 'vat')
            if vm is None:
                continue
            vname = vm.__name__[len('stdnum.'):]
            if vname in ('vatin', 'eu.vat'):
                continue
            for x in corpus(vname, vm)[:2]:
                try:
                    cand = cc.rstrip('_').upper() + vm.compact(x)
                    if mod.is_valid(cand) is True and cand not in out:
                        out.append(cand)
                except Exception:
                    pass
    # GS1-128: element strings with several variable-length values, one of them of its maximum length (the corpus of the
    # module documents only short ones), built from the application identifier table
    if name == 'gs1_128':
        try:
            from props import c16
            var = [r for r in c16.table() if r['parsed'] and r['fnc1'] and r['type'] == 'str' and len(r['parts']) == 1
                   and r['parts'][0]['cls'] == 'X' and r['parts'][0]['min'] < r['parts'][0]['max']][:6]
            for i in range(0, len(var) - 2):
                a, b, c = var[i], var[i + 1], var[i + 2]
                full = ('ABCDEFGHIJ0123456789' * 5)[:a['parts'][0]['max']]
                for cand in ('(%s)%s(%s)S1(%s)X' % (a['ai'], full, b['ai'], c['ai']), '(%s)S1(%s)%s(%s)X' % (b['ai'], a['ai'], full, c['ai'])):
                    if mod.is_valid(cand) is True and cand not in out:
                        out.append(cand)
        except Exception:
            pass
    _corpus_cache[name] = out
    return out


def grow_valid(mod, known, limit):
    from . import inputs
    alpha0 = inputs.module_alphabet(mod, cap=60)
    alpha = ([c for c in alpha0 if not c.isalnum()] + [c for c in alpha0 if c.isalnum()])[:32]      # symbols first
    seen = set(known)
    try:
        seen |= set(mod.compact(x) for x in known)
    except Exception:
        pass
    out = []
    for b0 in known[:2]:
        try:
            b = mod.validate(b0)
        except Exception:
            continue
        if not isinstance(b, str) or not b.isascii() or len(b) < 2 or len(b) > 40:
            continue
        cands = [b[:i] + ch + b[i + 1:] for i in range(len(b)) for ch in alpha if ch != b[i]]
        cands += [b[:i] + ch + b[i + 1:] for i in range(min(4, len(b) - 1)) for ch in '09' if ch != b[i]]
        cands += ['0' * k + b[k:] for k in (2, 3) if len(b) > k + 1 and b[:k].isdigit() and b[:k] != '0' * k]      # several leading zeros
        for t in cands:
            for u in [t] + [t[:-1] + d for d in '0123456789X' if d != t[-1]]:
                if u in seen:
                    continue
                try:
                    ok = mod.is_valid(u) is True and mod.validate(u) == u
                except Exception:
                    ok = False
                if ok:
                    seen.add(u)
                    out.append(u)
                    break
            if len(out) >= limit:
                return out
    return out


def pick(seq, n, rnd):
    """Deterministic sample: first element plus a seeded choice of the rest, order kept."""
    seq = list(seq)
    if len(seq) <= n:
        return seq
    idx = sorted(rnd.sample(range(1, len(seq)), n - 1))
    return [seq[0]] + [seq[i] for i in idx]


def pick_bases(name, mod, items, n, rnd, cap=8, corpus_items=None):
    """pick(items, n) plus one VALID representative of every branch of the format that the corpus documents: numbers are
    grouped by (length, classes of the first three characters, class of the last character) of the presentation as written
    without its separators (compact() or the canonical form would merge e.g. decimal and hexadecimal MEIDs) and the first of each group is added (at most cap
    groups).  Formats with several layouts (do.ncf: E.., B.., A.. numbers of three lengths; old and new Irish VAT numbers)
    are otherwise examined on the layouts of the first two corpus numbers only."""
    base = pick(items, n, rnd)

    def cls(ch):
        return 'd' if ch.isdigit() else 'A' if ch.isalpha() else ch
    groups = {}
    for x in sorted(corpus_items if corpus_items is not None else items, key=lambda z: (len(z), z)):
        try:
            v = mod.validate(x)
        except Exception:
            continue
        # the presentation as written, separators dropped (compact() would merge e.g. decimal and hexadecimal MEIDs)
        c = ''.join(ch for ch in x if ch.isalnum())
        if isinstance(v, str) and v and c:
            head = c[:2].upper() if c[:2].isalpha() and c[:2].isascii() else ''.join('z' if ch == '0' else cls(ch) for ch in c[:2])    # type / country letters literally; leading zeros are a layout of their own
            groups.setdefault((len(c), head + ''.join(cls(ch) for ch in c[2:3]), cls(c[-1])), x)
    keys = sorted(groups)
    first = []                       # one group per distinct length first, then the other groups
    for k in keys:
        if k[0] not in [q[0] for q in first]:
            first.append(k)
    reps = [groups[k] for k in (first + [k for k in keys if k not in first])[:cap]]
    return base + [x for x in reps if x not in base]


def literal_bases(mod, base, cap=4):
    """base overwritten from the left by the alphanumeric string constants of the module's source (special prefixes such as
    the SIREN of La Poste in fr.siret): these reach the branches that test for them; they need not be valid."""
    from . import inputs
    out = []
    for L in inputs.literals(mod, minlen=2, maxlen=max(2, len(base) - 1)):
        if L.isalnum() and L.isascii() and not base.startswith(L):
            cand = L + base[len(L):]
            if cand not in out:
                out.append(cand)
        if len(out) >= cap:
            break
    return out


def distinct_compact(name, mod, items):
    """Keep one presentation per compact form (prefer the shortest)."""
    seen = {}
    for s in sorted(items, key=lambda z: (len(z), z)):
        try:
            k = mod.compact(s) if hasattr(mod, 'compact') else s
        except Exception:
            k = s
        if k not in seen:
            seen[k] = s
    return sorted(seen.values())


# ---------------------------------------------------------------------------------------------
# recorder

VE_NAME = 'stdnum.exceptions.ValidationError'


def cps(s):
    return [ord(ch) for ch in s]


def from_cps(a):
    return ''.join(chr(i) for i in a)


def canon(value):
    """Canonical JSON-able form of a Python return value (mirrored in Api.tla)."""
    if value is None:
        return None
    if isinstance(value, bool):
        return value
    if isinstance(value, int):
        return {'int': str(value)}
    if isinstance(value, float):
        return {'float': repr(value)}
    if isinstance(value, str):
        return value
    if isinstance(value, bytes):
        return {'bytes': list(value)}
    if isinstance(value, datetime.datetime):
        return {'datetime': [value.year, value.month, value.day, value.hour, value.minute, value.second]}
    if isinstance(value, datetime.date):
        return {'date': [value.year, value.month, value.day]}
    if isinstance(value, decimal.Decimal):
        return {'decimal': str(value)}
    if isinstance(value, (list, tuple)):
        return {type(value).__name__: [canon(v) for v in value]}
    if isinstance(value, (set, frozenset)):
        return {'set': sorted((canon(v) for v in value), key=lambda z: json.dumps(z, sort_keys=True))}
    if isinstance(value, dict):
        return {'dict': sorted(([canon(k), canon(v)] for k, v in value.items()),
                               key=lambda z: json.dumps(z, sort_keys=True))}
    if inspect.ismodule(value):
        return {'module': value.__name__}
    return {'object': type(value).__module__ + '.' + type(value).__name__}


def site_of(exc):
    """Innermost stdnum frame of a traceback: 'stdnum/x.py:function'."""
    tb = exc.__traceback__
    site = ''
    while tb is not None:
        fn = tb.tb_frame.f_code.co_filename
        if '/stdnum/' in fn or fn.endswith('stdnum.wsgi'):
            rel = fn[fn.rindex('/stdnum/') + 1:] if '/stdnum/' in fn else os.path.basename(fn)
            site = '%s:%s' % (rel, tb.tb_frame.f_code.co_name)
        tb = tb.tb_next
    return site


def call(fn, *args, **kwargs):
    """Call and record.  Result record (uniform fields so TLC can read every event):
       k   'ret' | 'exc'
       t   type name of the returned value ('str', 'bool', 'NoneType', 'date', ...) or ''
       v   code points when a str was returned, else []
       b   the value when exactly a bool was returned, else False
       j   canonical JSON text of a non-str return value, else ''
       cls exception class name, mro its qualified MRO, site innermost stdnum frame"""
    try:
        with warnings.catch_warnings():
            warnings.simplefilter('ignore')
            val = fn(*args, **kwargs)
    except BaseException as e:  # noqa
        if isinstance(e, (KeyboardInterrupt, SystemExit, MemoryError)):
            raise
        mro = [c.__module__ + '.' + c.__name__ for c in type(e).__mro__]
        try:
            msg = str(e)[:120]
        except Exception:
            msg = '<unprintable %s>' % type(e).__name__
        return {'k': 'exc', 't': '', 'v': [], 'b': False, 'j': '', 'cls': type(e).__name__,
                'mro': mro, 'site': site_of(e), 'msg': msg}
    r = {'k': 'ret', 't': type(val).__name__, 'v': [], 'b': False, 'j': '', 'cls': '', 'mro': [],
         'site': '', 'msg': ''}
    if type(val) is str:
        r['v'] = cps(val)
    elif isinstance(val, str):
        r['t'] = 'str'  # subclass of str: still a string for the contract; keep real name in j
        r['v'] = cps(val)
        r['j'] = type(val).__name__
    elif type(val) is bool:
        r['b'] = val
    else:
        r['j'] = json.dumps(canon(val), sort_keys=True, ensure_ascii=True)
    return r


# ---------------------------------------------------------------------------------------------
# work directories / seeds / tiers

def tier():
    t = os.environ.get('VERIF_TIER', 'quick')
    return t if t in ('quick', 'thorough') else 'quick'


def seed():
    try:
        return int(os.environ.get('VERIF_SEED', '1'))
    except ValueError:
        return 1


def workdir(prop):
    """Per-run scratch directory under /verif/.work (removed by Check.finish); stale directories of runs of the same
    property whose process is gone are removed first."""
    import shutil
    os.makedirs(WORK_ROOT, exist_ok=True)
    for name in os.listdir(WORK_ROOT):
        m = re.match(r'^%s_(\d+)$' % re.escape(prop), name)
        if m and not os.path.exists('/proc/%s' % m.group(1)):
            shutil.rmtree(os.path.join(WORK_ROOT, name), ignore_errors=True)
    d = os.path.join(WORK_ROOT, '%s_%d' % (prop, os.getpid()))
    os.makedirs(d, exist_ok=True)
    return d


def sha(obj):
    return hashlib.sha1(json.dumps(obj, sort_keys=True).encode()).hexdigest()[:12]


def has_kw(fn, name):
    try:
        return name in inspect.signature(fn).parameters
    except (TypeError, ValueError):
        return False
