"""Run TLC and parse what it says.  The Python side never judges a property:
it starts TLC on a specification + configuration and reads back TLC's verdicts."""
import os, re, subprocess, time, json, shutil, uuid

JAR = '/opt/veriftools/tla/tla2tools.jar'
DEPS = '/opt/veriftools/tla/CommunityModules-deps.jar'
SPEC_DIR = os.path.join(os.path.dirname(os.path.dirname(os.path.dirname(os.path.abspath(__file__)))), 'spec')


class TLCResult(object):
    def __init__(self):
        self.rc = None
        self.out = ''
        self.generated = 0
        self.distinct = 0
        self.depth = 0
        self.prints = []          # raw PrintT lines
        self.error = None         # first "Error:" text
        self.violated = None      # name of violated invariant / property
        self.counterexample = ''  # textual error trace
        self.coverage = {}        # action name -> (distinct, total)
        self.wall = 0.0
        self.ok = False           # TLC finished "No error has been found"

    def summary(self):
        return dict(rc=self.rc, generated=self.generated, distinct=self.distinct,
                    depth=self.depth, violated=self.violated, error=self.error)


_gen_re = re.compile(r'^(\d+) states generated, (\d+) distinct states found')
_depth_re = re.compile(r'depth of the complete state graph search is (\d+)')
_inv_re = re.compile(r'Invariant (\S+) is violated')
_prop_re = re.compile(r'(?:Temporal properties were violated|Action property (\S+) is violated|property (\S+) is violated)')
_cov_re = re.compile(r'^<(\w+) line \d+, col \d+ to line \d+, col \d+ of module (\w+)>: (\d+):(\d+)')


def run(module, cfg=None, workdir=None, env=None, workers=1, heap='3g', timeout=3600,
        simulate=None, depth=None, seed=None, coverage=False, deadlock=None, extra=None):
    """Run TLC on spec/<module>.tla with spec/<cfg>.cfg.  env: extra environment
    (readable from TLA+ through IOEnv).  Returns a TLCResult."""
    cfg = cfg or module
    assert workdir, 'workdir required'
    meta = os.path.join(workdir, 'meta_%s_%s' % (cfg, uuid.uuid4().hex[:12]))
    gc = ['-XX:+UseSerialGC'] if workers == 1 else ['-XX:+UseParallelGC', '-XX:ParallelGCThreads=%d' % min(8, int(workers))]
    cmd = ['java'] + gc + ['-Xmx' + heap, '-Xss64m',
           '-DTLA-Library=' + SPEC_DIR,
           '-cp', JAR + ':' + DEPS, 'tlc2.TLC',
           '-workers', str(workers), '-metadir', meta, '-noGenerateSpecTE',
           '-config', os.path.join(SPEC_DIR, cfg + '.cfg')]
    if simulate:
        cmd += ['-simulate', simulate]
    if depth:
        cmd += ['-depth', str(depth)]
    if seed is not None:
        cmd += ['-seed', str(seed)]
    if coverage:
        cmd += ['-coverage', '1']
    if deadlock is False:
        cmd += ['-deadlock']
    if extra:
        cmd += list(extra)
    cmd.append(os.path.join(SPEC_DIR, module + '.tla'))
    e = dict(os.environ)
    e.pop('JAVA_TOOL_OPTIONS', None)
    if env:
        e.update({k: str(v) for k, v in env.items()})
    t0 = time.time()
    res = TLCResult()
    try:
        p = subprocess.run(cmd, stdout=subprocess.PIPE, stderr=subprocess.STDOUT, env=e,
                           timeout=timeout, cwd=workdir)
        res.rc = p.returncode
        res.out = p.stdout.decode('utf-8', 'replace')
    except subprocess.TimeoutExpired as ex:
        res.rc = -9
        res.out = (ex.stdout or b'').decode('utf-8', 'replace')
        res.error = 'timeout after %ss' % timeout
    res.wall = time.time() - t0
    shutil.rmtree(meta, ignore_errors=True)
    _parse(res)
    return res


def _parse(res):
    lines = res.out.splitlines()
    in_err = False
    pend = None
    bal = 0
    for i, ln in enumerate(lines):
        m = _gen_re.match(ln)
        if m:
            res.generated, res.distinct = int(m.group(1)), int(m.group(2))
        m = _depth_re.search(ln)
        if m:
            res.depth = int(m.group(1))
        if pend is not None:
            pend.append(ln)
            bal += ln.count('<<') - ln.count('>>')
            if bal <= 0:
                res.prints.append(' '.join(x.strip() for x in pend))
                pend = None
            continue
        if ln.startswith('<<'):
            bal = ln.count('<<') - ln.count('>>')
            if bal <= 0:
                res.prints.append(ln)
            else:
                pend = [ln]
            continue
        m = _inv_re.search(ln)
        if m and not res.violated:
            res.violated = m.group(1)
        m = _prop_re.search(ln)
        if m and not res.violated:
            res.violated = m.group(1) or m.group(2) or 'temporal'
        if ln.startswith('Error:') and res.error is None:
            res.error = '\n'.join(lines[i:i + 12])
        m = _cov_re.match(ln)
        if m:
            res.coverage[m.group(1)] = (int(m.group(3)), int(m.group(4)))
        if 'Model checking completed. No error has been found' in ln:
            res.ok = True
        if 'Finished in' in ln and res.error is None and res.violated is None and not res.ok:
            # simulation mode prints no "completed" line
            pass
    if res.violated or res.error:
        res.ok = False
        # keep the error trace text
        idx = res.out.find('Error:')
        res.counterexample = res.out[idx:idx + 6000] if idx >= 0 else ''


# ---------------------------------------------------------------------------------------------
# parsing of TLA+ values printed by PrintT (tuples, strings, ints, booleans, records, sets)

def parse_value(s):
    v, i = _pv(s, 0)
    return v


def _ws(s, i):
    while i < len(s) and s[i] in ' \n\t':
        i += 1
    return i


def _pv(s, i):
    i = _ws(s, i)
    if s.startswith('<<', i):
        i += 2
        out = []
        i = _ws(s, i)
        if s.startswith('>>', i):
            return out, i + 2
        while True:
            v, i = _pv(s, i)
            out.append(v)
            i = _ws(s, i)
            if s.startswith('>>', i):
                return out, i + 2
            assert s[i] == ',', (s[i:i + 20])
            i += 1
    if s[i] == '{':
        i += 1
        out = []
        i = _ws(s, i)
        if s[i] == '}':
            return out, i + 1
        while True:
            v, i = _pv(s, i)
            out.append(v)
            i = _ws(s, i)
            if s[i] == '}':
                return out, i + 1
            assert s[i] == ','
            i += 1
    if s[i] == '[':
        i += 1
        out = {}
        while True:
            i = _ws(s, i)
            j = s.index('|->', i)
            key = s[i:j].strip()
            v, i = _pv(s, j + 3)
            out[key] = v
            i = _ws(s, i)
            if s[i] == ']':
                return out, i + 1
            assert s[i] == ','
            i += 1
    if s[i] == '"':
        j = i + 1
        buf = []
        while s[j] != '"':
            if s[j] == '\\':
                j += 1
            buf.append(s[j])
            j += 1
        return ''.join(buf), j + 1
    m = re.compile(r'-?\d+').match(s, i)
    if m:
        return int(m.group(0)), m.end()
    m = re.compile(r'[A-Za-z_][A-Za-z0-9_]*').match(s, i)
    if m:
        w = m.group(0)
        return {'TRUE': True, 'FALSE': False}.get(w, w), m.end()
    raise ValueError('cannot parse TLA+ value at %r' % s[i:i + 40])


def apalache(module, init, inv, length, workdir, timeout=1500):
    """apalache-mc check --init=<init> --inv=<inv> --length=<length> on spec/<module>.tla; returns 'NoError', 'Error' or
    'unavailable: ...' (the symbolic checker complements TLC, it never replaces it)."""
    import shutil, subprocess, uuid
    exe = shutil.which('apalache-mc')
    if not exe:
        return 'unavailable: apalache-mc not on PATH', ''
    out = os.path.join(workdir, 'apa_' + uuid.uuid4().hex[:8])
    os.makedirs(out, exist_ok=True)
    try:
        p = subprocess.run([exe, 'check', '--init=' + init, '--inv=' + inv, '--length=%d' % length, '--out-dir=' + out, module + '.tla'],
                           cwd=SPEC_DIR, stdout=subprocess.PIPE, stderr=subprocess.STDOUT, timeout=timeout)
    except subprocess.TimeoutExpired:
        return 'unavailable: timeout after %ds' % timeout, ''
    txt = p.stdout.decode('utf-8', 'replace')
    if 'The outcome is: NoError' in txt:
        return 'NoError', txt
    if 'The outcome is: Error' in txt:
        return 'Error', txt
    return 'unavailable: ' + ' '.join(txt.split())[-300:], txt

