"""Registry (numdb .dat) files: an independent parser (not derived from stdnum.numdb's regular
expressions) producing the tree the TLA+ specification NumDB.tla talks about, a serialiser for
TLC-generated registries, and query construction."""
import json, random


def parse_line(line):
    """-> (indent, [(low, high)...], [(key, value)...], leftovers) for a non-comment line."""
    body = line.rstrip('\n').rstrip('\r')
    indent = len(body) - len(body.lstrip(' '))
    rest = body[indent:]
    i = 0
    while i < len(rest) and not rest[i].isspace():
        i += 1
    rtext, ptext = rest[:i], rest[i:]
    ranges = []
    for r in rtext.split(','):
        if '-' in r:
            lo, hi = r.split('-', 1)
        else:
            lo, hi = r, r
        ranges.append((lo, hi))
    props = []
    left = []
    j = 0
    n = len(ptext)
    while j < n:
        if ptext[j].isspace():
            j += 1
            continue
        k = j
        while k < n and (ptext[k].isalnum() or ptext[k] in '-_'):
            k += 1
        if k > j and ptext[k:k + 2] == '="':
            e = ptext.find('"', k + 2)
            if e >= 0:
                props.append((ptext[j:k], ptext[k + 2:e]))
                j = e + 1
                continue
        # something that is not key="value"
        e = j
        while e < n and not ptext[e].isspace():
            e += 1
        left.append(ptext[j:e])
        j = e
    return indent, ranges, props, left


def parse_text(text):
    """Tree of a registry file: list of entries {len, low, high, props, kids}; also per-line records."""
    root = []
    stack = [(-1, root)]
    lines = []
    for ln_no, line in enumerate(text.splitlines(), 1):
        if line[:1] == '#' or line.strip() == '':
            continue
        indent, ranges, props, left = parse_line(line)
        while stack[-1][0] >= indent:
            stack.pop()
        parent = stack[-1][1]
        kids = []
        ents = []
        for lo, hi in ranges:
            e = {'len': len(lo), 'low': [ord(c) for c in lo], 'high': [ord(c) for c in hi],
                 'props': [[k, v] for k, v in props], 'kids': kids}
            parent.append(e)
            ents.append(e)
        stack.append((indent, kids))
        lines.append({'no': ln_no, 'indent': indent, 'ranges': ranges, 'props': props, 'left': left, 'entries': ents,
                      'parent_indent': stack[-2][0], 'text': line})
    return root, lines


def serialise(level, depth=0):
    """File text of a generated registry: one line per 'line' record {ranges, props, kids}."""
    out = []
    for ln in level:
        rs = []
        for lo, hi in ln['ranges']:
            lo_s = ''.join(chr(c) for c in lo)
            hi_s = ''.join(chr(c) for c in hi)
            rs.append(lo_s if lo_s == hi_s else lo_s + '-' + hi_s)
        ps = ''.join(' %s="%s"' % (k, v) for k, v in ln['props'])
        out.append(' ' * depth + ','.join(rs) + ps)
        out.extend(serialise(ln['kids'], depth + 1))
    return out


def tree_of_lines(level):
    """The NumDB.tla tree of a generated registry (ranges of one line share props and children)."""
    out = []
    for ln in level:
        kids = tree_of_lines(ln['kids'])
        for lo, hi in ln['ranges']:
            out.append({'len': len(lo), 'low': list(lo), 'high': list(hi), 'props': [list(p) for p in ln['props']], 'kids': kids})
    return out


def bump(s, alphabet, delta):
    """s with its last character moved by delta within alphabet (None when it falls off)."""
    if not s:
        return None
    a = sorted(alphabet)
    try:
        i = a.index(s[-1]) + delta
    except ValueError:
        return None
    if 0 <= i < len(a):
        return s[:-1] + a[i]
    return None


def queries(tree, rnd, cap, extra_random):
    """Query strings for a registry tree: every path of range end points, end points +/- 1,
    with and without a tail, random strings over the registry's alphabet, the empty string."""
    alphabet = set()
    paths = []

    def walk(level, prefix, depth):
        for e in level:
            lo = ''.join(chr(c) for c in e['low'])
            hi = ''.join(chr(c) for c in e['high'])
            alphabet.update(lo)
            alphabet.update(hi)
            paths.append((prefix, lo, hi))
            if e['kids'] and depth < 6:
                walk(e['kids'], prefix + lo, depth + 1)
                if hi != lo:
                    walk(e['kids'][:3], prefix + hi, depth + 1)
    walk(tree, '', 0)
    if len(paths) > cap:
        paths = rnd.sample(paths, cap)
    alphabet = alphabet or set('0123456789')
    a = sorted(alphabet)
    qs = set([''])
    for prefix, lo, hi in paths:
        for s in (lo, hi):
            for t in (s, bump(s, a, -1), bump(s, a, +1)):
                if t is None:
                    continue
                qs.add(prefix + t)
                qs.add(prefix + t + ''.join(rnd.choice(a) for _ in range(rnd.randrange(1, 5))))
        qs.add(prefix + lo[:-1])
    for _ in range(extra_random):
        qs.add(''.join(rnd.choice(a) for _ in range(rnd.randrange(1, 14))))
    return sorted(qs)
