"""Concretisation of the abstract input model of spec/Inputs.tla.

TLC enumerates edit scripts  <<[op, pos, ch], ...>>; this module turns a script into concrete
strings for a concrete base string.  Character classes map to representative code points; for
'rep' edits at a digit (letter) position the classes of foreign digits (letters) choose the
*same-valued* digit (a look-alike letter), so that an acceptance cannot be explained by the
number having become a different valid number."""
import unicodedata, random

# ---- character classes -------------------------------------------------------------------------
# Each class: list of code points.  "D:" classes are digit families given by the code point of
# their zero (value d is zero+d).
CLASSES = {
    'LF': [0x0A], 'CR': [0x0D], 'TAB': [0x09], 'NUL': [0x00], 'VT': [0x0B], 'FF': [0x0C],
    'FS': [0x1C, 0x1D, 0x1E], 'US': [0x1F], 'NEL': [0x85], 'LS': [0x2028], 'PS': [0x2029],
    'ZWSP': [0x200B, 0x200D, 0x2060], 'BOM': [0xFEFF], 'NBSP': [0xA0], 'SHY': [0xAD],
    # look-alikes that the clean-up table translates
    'L_DASH': [0x2013, 0x2212, 0xFF0D], 'L_DOT': [0xB7, 0x2022, 0xFF0E], 'L_SLASH': [0x2044, 0xFF0F],
    'L_COLON': [0xFF1A, 0x1804], 'L_STAR': [0xFF0A, 0x2217], 'L_COMMA': [0xFF0C, 0x060C],
    'L_APOS': [0x2019, 0x0060], 'L_SPACE': [0x2003, 0x3000, 0x202F],
    # ASCII
    'A_SPACE': [0x20], 'A_HYPHEN': [0x2D], 'A_DOT': [0x2E], 'A_SLASH': [0x2F], 'A_COLON': [0x3A],
    'A_COMMA': [0x2C], 'A_APOS': [0x27], 'A_STAR': [0x2A],
    'A_PUNCT': [0x5F, 0x2B, 0x23, 0x25, 0x28, 0x29, 0x5C, 0x22, 0x3C, 0x3E, 0x26, 0x7E, 0x40, 0x24, 0x5B, 0x7C],
    'A_DIGIT': list(range(0x30, 0x3A)), 'A_UPPER': list(range(0x41, 0x5B)), 'A_LOWER': list(range(0x61, 0x7B)),
    # numeric characters
    'NO_SUPER': [0xB2, 0xB3, 0xB9, 0x2070, 0x2074, 0x2075, 0x2080, 0x2081],
    'NO_CIRCLED': [0x2460, 0x2461, 0x2468, 0x24EA, 0x2776],
    'NO_FRACTION': [0xBD, 0xBC, 0x2153],
    'NL_ROMAN': [0x2160, 0x2164, 0x2169, 0x2170, 0x3007],
    'HAN_DIGIT': [0x4E00, 0x4E8C, 0x4E09, 0x56DB, 0x4E94],
    # letters
    'LATIN_ACC': [0xC9, 0xE9, 0xD1, 0xF1, 0xC4, 0xE4, 0xD6, 0xDC, 0xE7, 0x141],
    'GREEK': [0x391, 0x392, 0x395, 0x3B1, 0x3B2, 0x39F, 0x3A7],
    'CYRILLIC': [0x410, 0x412, 0x415, 0x430, 0x435, 0x41E, 0x421, 0x425],
    'FW_LATIN': [0xFF21, 0xFF22, 0xFF41, 0xFF38, 0xFF3A],
    'CASE_EXPAND': [0xDF, 0x149, 0x1F0, 0xFB01, 0x390],
    'CASE_SPECIAL': [0x130, 0x131, 0x17F, 0x212A, 0x212B],
    'COMBINING': [0x308, 0x20DD, 0x327],
    'SURROGATE': [0xD800, 0xDFFF],
    'ASTRAL': [0x1F600, 0x10FFFF, 0x1F100],
}
DIGIT_FAMILIES = {
    'L_DIGIT': [0xFF10, 0x1D7CE, 0x1D7D8, 0x1D7E2, 0x1D7EC, 0x1D7F6],   # in the clean-up table
    'ND_ARABIC': [0x660, 0x6F0], 'ND_DEVA': [0x966, 0x9E6], 'ND_THAI': [0xE50, 0xED0],
    'ND_OTHER': [0x7C0, 0xA66, 0xAE6, 0xB66, 0xBE6, 0xC66, 0xCE6, 0xD66, 0xF20, 0x1040, 0x17E0, 0x1810, 0xA620, 0xAA50],
    'ASTRAL_DIGIT': [0x104A0, 0x11066, 0x1D7CE + 0, 0x1E950, 0x11730],
}
# look-alike letters for same-shaped replacement (ASCII upper letter -> candidates)
LOOKALIKE = {
    'A': [0x391, 0x410, 0xC1, 0xFF21], 'B': [0x392, 0x412, 0xFF22], 'C': [0x421, 0xC7, 0x216D], 'E': [0x395, 0x415, 0xC9],
    'H': [0x397, 0x41D], 'I': [0x399, 0x406, 0x130, 0x2160], 'K': [0x39A, 0x41A, 0x212A], 'M': [0x39C, 0x41C, 0x216F],
    'N': [0x39D, 0xD1], 'O': [0x39F, 0x41E, 0xD6], 'P': [0x3A1, 0x420], 'T': [0x3A4, 0x422], 'X': [0x3A7, 0x425, 0x2169],
    'Y': [0x3A5, 0x4AE], 'Z': [0x396, 0x17B], 'S': [0x405, 0x15A, 0x17F], 'D': [0x10E, 0x216E], 'L': [0x141, 0x216C],
    'U': [0xDC, 0x54D], 'G': [0x11E, 0x50C], 'R': [0x158], 'J': [0x408], 'F': [0x3DC], 'V': [0x2164], 'W': [0x51C], 'Q': [0x51A],
}
ALL_CLASSES = sorted(list(CLASSES) + list(DIGIT_FAMILIES))

HOSTILE = ['LF', 'CR', 'TAB', 'NUL', 'VT', 'FF', 'FS', 'US', 'NEL', 'LS', 'PS', 'ZWSP', 'BOM', 'NBSP', 'SHY',
           'SURROGATE', 'ASTRAL', 'COMBINING']
FOREIGN_DIGITS = ['ND_ARABIC', 'ND_DEVA', 'ND_THAI', 'ND_OTHER', 'ASTRAL_DIGIT', 'NO_SUPER', 'NO_CIRCLED',
                  'NO_FRACTION', 'NL_ROMAN', 'HAN_DIGIT']
FOREIGN_LETTERS = ['LATIN_ACC', 'GREEK', 'CYRILLIC', 'FW_LATIN', 'CASE_EXPAND', 'CASE_SPECIAL']


def _numeric_value(cp):
    try:
        return unicodedata.digit(chr(cp))
    except ValueError:
        try:
            v = unicodedata.numeric(chr(cp))
            return int(v) if v == int(v) and 0 <= v <= 9 else None
        except ValueError:
            return None


def chars_for(cls, at_char, rnd, k=1):
    """Concrete characters of class cls for an edit that replaces/precedes at_char (may be '').
    Returns up to k characters (deterministic given rnd)."""
    out = []
    if cls in DIGIT_FAMILIES:
        zeros = DIGIT_FAMILIES[cls]
        zs = list(zeros) if k >= len(zeros) else rnd.sample(zeros, max(k, 1))
        d = int(at_char) if at_char and at_char in '0123456789' else rnd.randrange(10)
        for z in zs:
            out.append(chr(z + d))
        return out
    cpsl = CLASSES[cls]
    if cls in ('NO_SUPER', 'NO_CIRCLED', 'NL_ROMAN', 'HAN_DIGIT') and at_char and at_char in '0123456789':
        same = [c for c in cpsl if _numeric_value(c) == int(at_char)]
        if same:
            out.append(chr(same[0]))
    if cls in FOREIGN_LETTERS and at_char and at_char.upper() in LOOKALIKE:
        cand = [c for c in LOOKALIKE[at_char.upper()] if c in _class_members(cls)]
        if cand:
            out.append(chr(cand[0]))
    pool = [chr(c) for c in cpsl if chr(c) not in out]
    need = max(0, k - len(out))
    if need >= len(pool):
        out.extend(pool)
    elif need:
        out.extend(rnd.sample(pool, need))
    return out[:max(k, 1)]


_members = {}


def _class_members(cls):
    if cls not in _members:
        s = set(CLASSES[cls])
        if cls == 'GREEK':
            s |= set(range(0x370, 0x400))
        if cls == 'CYRILLIC':
            s |= set(range(0x400, 0x530))
        if cls == 'LATIN_ACC':
            s |= set(range(0xC0, 0x250))
        if cls == 'FW_LATIN':
            s |= set(range(0xFF21, 0xFF5B))
        if cls == 'CASE_SPECIAL':
            s |= {0x212A, 0x212B, 0x130, 0x131, 0x17F}
        _members[cls] = s
    return _members[cls]


def positions(pos, n, op):
    """Concrete indices for a position class on a string of length n."""
    top = n if op in ('ins', 'dup') else n - 1      # ins/dup may also append (index n)
    if top < 0:
        return [0] if op == 'ins' else []
    if pos == 'each':
        return list(range(0, top + 1))
    m = {'first': 0, 'second': 1, 'middle': n // 2, 'before_last': n - 2, 'last': n - 1, 'end': n}.get(pos)
    if m is None or m < 0 or m > top:
        return []
    return [m]


def apply_edit(s, edit, idx, ch):
    op = edit['op']
    if op == 'ins':
        return s[:idx] + ch + s[idx:]
    if op == 'rep':
        return s[:idx] + ch + s[idx + 1:]
    if op == 'del':
        return s[:idx] + s[idx + 1:]
    if op == 'trunc':
        return s[:idx]
    if op == 'case':
        c = s[idx]
        return s[:idx] + (c.lower() if c.isupper() else c.upper()) + s[idx + 1:]
    if op == 'dup':
        return s[:idx] + ch + s[idx:]
    raise ValueError(op)


def tokens(s):
    """Maximal alphanumeric runs of s (for the 'dup' edit: repeat a token elsewhere)."""
    import re
    out = []
    for t in re.findall(r'[0-9A-Za-z]+', s):
        for v in (t, t.lower(), t.upper()):
            if v not in out:
                out.append(v)
        if len(t) > 2 and t[:2] not in out:
            out.append(t[:2])
    return out[:8]


def literals(mod, minlen=2, maxlen=40, cap=400):
    """String constants of a module's source (court names, aliases, prefixes, table keys): raw
    material for token substitution."""
    import ast, inspect
    try:
        tree = ast.parse(inspect.getsource(mod))
    except Exception:
        return []
    doc = set()
    for node in ast.walk(tree):
        if isinstance(node, (ast.Module, ast.FunctionDef, ast.ClassDef)):
            d = ast.get_docstring(node, clean=False)
            if d:
                doc.add(d)
    out = []
    for node in ast.walk(tree):
        if isinstance(node, ast.Constant) and isinstance(node.value, str):
            v = node.value
            if v in doc or not (minlen <= len(v) <= maxlen) or '\n' in v:
                continue
            if v not in out:
                out.append(v)
    return out[:cap]


def module_alphabet(mod, cap=30):
    """Dictionary characters of a module: the letters and symbols its own string constants mention (regular expression
    classes, check alphabets, type letters).  Behaviour branches on exactly these, so they are substituted
    systematically; digits, blanks and regular expression punctuation are left to the character classes."""
    import ast, inspect
    try:
        tree = ast.parse(inspect.getsource(mod))
    except Exception:
        return []
    doc = set()
    for node in ast.walk(tree):
        if isinstance(node, (ast.Module, ast.FunctionDef, ast.ClassDef)):
            d = ast.get_docstring(node, clean=False)
            if d:
                doc.add(d)
    first, rest = [], []
    for node in ast.walk(tree):
        if isinstance(node, ast.Constant) and isinstance(node.value, str) and node.value not in doc and len(node.value) <= 80:
            regexish = any(c in node.value for c in '[^$')
            for c in node.value:
                if c.isdigit() or c.isspace() or c in '^$[]{}()?\\.-,:;_\'"<>!' or c.islower():
                    continue
                (first if regexish else rest).append(c)
    out = []
    for c in first + rest:
        if c not in out:
            out.append(c)
    return out[:cap]


def substitute_tokens(base, lits):
    """base with one of its word tokens (split on spaces; also alphabetic runs) replaced by a literal."""
    import re
    out = []
    words = base.split(' ')
    for i in range(len(words)):
        for L in lits:
            if L != words[i]:
                out.append(' '.join(words[:i] + [L] + words[i + 1:]))
    for m in re.finditer(r'[A-Za-z\u00c0-\u024f]{2,}', base):
        for L in lits:
            if L.isalpha() and L != m.group(0):
                out.append(base[:m.start()] + L + base[m.end():])
    return out


def concretise(base, script, rnd, k=1, max_out=None):
    """All concrete strings for script on base: yields (string, description)."""
    results = [(base, '')]
    for edit in script:
        nxt = []
        for s, desc in results:
            for idx in positions(edit['pos'], len(s), edit['op']):
                at = s[idx] if idx < len(s) else ''
                if edit['op'] == 'dup':
                    for t in tokens(s):
                        nxt.append((apply_edit(s, edit, idx, t), '%s dup %r@%d' % (desc, t, idx)))
                elif edit['op'] in ('ins', 'rep'):
                    for ch in chars_for(edit['ch'], at if edit['op'] == 'rep' else '', rnd, k):
                        nxt.append((apply_edit(s, edit, idx, ch), '%s %s %s@%d U+%04X' % (desc, edit['op'], edit['ch'], idx, ord(ch))))
                else:
                    if edit['op'] == 'case' and not at.isalpha():
                        continue
                    nxt.append((apply_edit(s, edit, idx, ''), '%s %s@%d' % (desc, edit['op'], idx)))
        results = nxt
        if max_out and len(results) > max_out:
            results = rnd.sample(results, max_out)
    seen = set()
    for s, d in results:
        if s != base and s not in seen:
            seen.add(s)
            yield s, d.strip()


# ---- non-string values -----------------------------------------------------------------------------

class _RaisingIter(object):
    def __iter__(self):
        raise RuntimeError('no iteration')


class _StrSub(str):
    pass


class _Plain(object):
    pass


def non_strings(base):
    """(kind, value) pairs of non-string (or string-like) values built around a valid base."""
    b = base
    out = [('None', None), ('True', True), ('False', False), ('int0', 0), ('int', 123456789),
           ('bigint', 10 ** 40), ('negint', -5), ('float', 1.5), ('nan', float('nan')), ('inf', float('inf')),
           ('bytes', b.encode('utf-8', 'replace')), ('bytearray', bytearray(b.encode('utf-8', 'replace'))),
           ('empty_bytes', b''), ('list_chars', list(b)), ('tuple_chars', tuple(b)), ('empty_list', []),
           ('empty_tuple', ()), ('list_ints', [1, 2, 3]), ('list_mixed', ['1', 2, None]), ('list_strs', [b, b]),
           ('set_chars', set(b[:3])), ('dict', {'a': 1}), ('dict_chars', {c: 1 for c in b}),
           ('iter_chars', 'GEN'), ('str_subclass', _StrSub(b)), ('raising_iter', _RaisingIter()), ('object', _Plain()),
           ('complex', 1j), ('type', str), ('func', len), ('empty', ''), ('space', ' '), ('spaces', '   '),
           ('list_of_list', [[b]]), ('memoryview', memoryview(b.encode('utf-8', 'replace'))),
           ('range', range(3)), ('ellipsis', Ellipsis), ('notimpl', NotImplemented)]
    try:
        if b.isdigit() and b.isascii():
            out.append(('int_of_base', int(b)))
    except Exception:
        pass
    return out


def make_value(kind, value, base):
    if value == 'GEN' and kind == 'iter_chars':
        return (c for c in base)
    return value
