"""Check framework: parallel drive stage, sharded trace validation by TLC, verdict handling,
known findings, replay files, evidence.  Exit codes: 0 held / only known findings,
1 violation (a VIOLATION line was printed), 2 machinery failure."""
import os, sys, json, time, re, shutil, random, traceback, multiprocessing, subprocess
from concurrent.futures import ThreadPoolExecutor
from . import tlc, lib

NPROC = int(os.environ.get('VERIF_NPROC', '16'))


class MachineryError(Exception):
    pass


class Check(object):
    def __init__(self, prop, level='model_checking'):
        self.prop = prop
        self.level = level
        self.tier = lib.tier()
        self.seed = lib.seed()
        self.t0 = time.time()
        self.work = lib.workdir(prop)
        self.rnd = random.Random(self.seed)
        self.cov = {'states': 0, 'transitions': 0, 'traces_validated_against_impl': 0,
                    'samples': [], 'evaluations': 0, 'distinct_nontrivial': 0, 'rule': '',
                    'stages': []}
        self.assumptions = []
        self.violations = []     # dicts: {clause, module, site, witness, detail}
        self.known_hits = []
        self.findings = load_findings(prop)
        self.notes = []
        if not os.environ.get('VERIF_REPLAY'):
            shutil.rmtree(os.path.join(lib.VERIF, 'replays', prop), ignore_errors=True)

    # ---- model checking stage -------------------------------------------------------------
    def mc(self, module, cfg=None, expect_violation=None, workers=NPROC, env=None, heap='6g',
           timeout=3000, must_cover=None, label=None, **kw):
        """Run TLC exhaustively.  expect_violation: name of the invariant that a negative
        (hazard) instance must violate -- the vacuity guard."""
        if os.environ.get('VERIF_SKIP_MC'):      # development aid for mutation campaigns (never set by a registered command)
            self.cov['stages'].append({'stage': 'MC', 'spec': module, 'cfg': cfg or module, 'label': 'SKIPPED (VERIF_SKIP_MC)'})
            return None
        r = tlc.run(module, cfg, workdir=self.work, env=env, workers=workers, heap=heap,
                    timeout=timeout, coverage=bool(must_cover), **kw)
        stage = {'stage': 'MC', 'spec': module, 'cfg': cfg or module, 'generated': r.generated,
                 'distinct': r.distinct, 'depth': r.depth, 'wall_s': round(r.wall, 1),
                 'label': label or ''}
        if expect_violation:
            stage['expected_violation'] = expect_violation
            stage['refuted'] = r.violated
            self.cov['stages'].append(stage)
            if r.violated != expect_violation:
                raise MachineryError('negative instance %s/%s: expected TLC to refute %s, got violated=%r error=%r\n%s'
                                     % (module, cfg, expect_violation, r.violated, r.error, r.out[-1500:]))
            return r
        self.cov['stages'].append(stage)
        self.cov['states'] += r.distinct
        self.cov['transitions'] += r.generated
        if r.violated:
            stage['violated'] = r.violated
            return r
        if not r.ok:
            raise MachineryError('TLC failed on %s/%s: %s\n%s' % (module, cfg, r.error, r.out[-3000:]))
        if must_cover:
            for a in must_cover:
                if a not in r.coverage or r.coverage[a][1] == 0:
                    raise MachineryError('vacuity: action %s of %s never taken (coverage %r)' % (a, module, r.coverage.get(a)))
        return r

    # ---- drive stage ----------------------------------------------------------------------
    def drive(self, units, worker, nproc=NPROC, shuffle=True):
        """Run worker(unit, emit) for every unit in nproc forked processes.  worker calls
        emit.trace(events, meta): one micro-trace (list of event dicts without tid; meta is
        kept on the Python side for replay/reporting).  Returns the list of shard descriptors
        [{'events': path, 'index': path, 'n_events': .., 'n_traces': ..}]."""
        units = list(units)
        if shuffle:
            random.Random(self.seed).shuffle(units)
        nproc = max(1, min(nproc, len(units)))
        self._ndrive = getattr(self, '_ndrive', 0) + 1
        tag = 'd%d' % self._ndrive
        procs = []
        for i in range(nproc):
            p = multiprocessing.Process(target=_drive_proc, args=(self.work, tag, i, units[i::nproc], worker))
            p.start()
            procs.append(p)
        for p in procs:
            p.join()
        shards = []
        for i, p in enumerate(procs):
            if p.exitcode != 0:
                raise MachineryError('drive worker %d exited with %r' % (i, p.exitcode))
            with open(os.path.join(self.work, '%s_%d.stat' % (tag, i))) as fh:
                st = json.load(fh)
            shards.append(st)
        return shards

    # ---- trace validation stage -------------------------------------------------------------
    def validate(self, trace_module, shards, cfg=None, own_clauses=None, env=None, heap='2500m',
                 label=None):
        """TLC validates every shard; returns list of rejections (dicts).  own_clauses: clause
        names that belong to this property (others are counted, not reported)."""
        shards = [s for s in shards if s['n_events'] > 0]
        if trace_module in CHUNKABLE:
            shards = [c for s in shards for c in _chunks(s, int(os.environ.get('VERIF_CHUNK', CHUNK_EVENTS)))]
        t0 = time.time()

        def one(s):
            e = {'TRACE_FILE': s['events']}
            if env:
                e.update(env)
            return tlc.run(trace_module, cfg, workdir=self.work, env=e, workers=1, heap=heap, timeout=3000)

        with ThreadPoolExecutor(max_workers=NPROC) as ex:
            results = list(ex.map(one, shards))
        rejections = []
        other = 0
        n_events = n_traces = 0
        for s, r in zip(shards, results):
            done = None
            rejs = []
            for ln in r.prints:
                if ln.startswith('<<"REJ"'):
                    v = tlc.parse_value(ln)
                    rejs.append((v[1], v[2], v[3]))
                elif ln.startswith('<<"DONE"'):
                    done = tlc.parse_value(ln)
            if r.error or r.violated or done is None or done[1] != s['n_events'] or done[2] != s['n_events']:
                raise MachineryError('trace validation of %s by %s did not consume the trace: done=%r n_events=%d error=%r\n%s'
                                     % (s['events'], trace_module, done, s['n_events'], r.error, r.out[-3000:]))
            self.cov['states'] += r.distinct
            self.cov['transitions'] += r.generated
            n_events += s['n_events']
            n_traces += s['n_traces']
            if rejs:
                index = _load_index(s['index'])
                seen = set()
                want_lines = set(line for _, line, _ in rejs)
                ev_at = {}
                with open(s['events']) as fh:
                    for no, ln in enumerate(fh, 1):
                        if no in want_lines:
                            try:
                                ev_at[no] = json.loads(ln)
                            except ValueError:
                                pass
                for tid, line, clauses in rejs:
                    for c in clauses:
                        if c.startswith('M'):
                            raise MachineryError('driver did not follow the session the spec prescribes: clause %s tid %d in %s' % (c, tid, s['events']))
                        if own_clauses is not None and c not in own_clauses:
                            other += 1
                            continue
                        evt = ev_at.get(line, {})
                        # events that carry the presentation they were recorded for ('pres', code points) are reported per
                        # presentation: a known finding about one spelling must not hide another spelling of the same number
                        pres = ''.join(chr(q) for q in evt['pres']) if isinstance(evt.get('pres'), list) else None
                        if (tid, c, pres) in seen:
                            continue
                        seen.add((tid, c, pres))
                        meta = dict(index.get(tid, {}))
                        if pres is not None:
                            meta['pres'] = pres
                        # a micro-trace may span several modules (doctest examples): the failing event names its own
                        if isinstance(evt.get('m'), str) and evt.get('m') and meta.get('how') == 'doctest example':
                            meta['m'] = evt['m']
                            r = evt.get('r') or {}
                            if r.get('k') == 'ret' and r.get('t') == 'str':
                                meta['ret'] = ''.join(chr(c) for c in r.get('v', []))[:80]
                            if evt.get('a') == 'is_valid':
                                # V3 concerns the validate result remembered by the session: look it up in the micro-trace
                                meta['ret'] = meta.get('ret', '')
                        rejections.append({'clause': c, 'tid': tid, 'line': line, 'shard': s['events'],
                                           'meta': meta})
        self.cov['traces_validated_against_impl'] += n_traces
        self.cov['evaluations'] += n_events
        self.cov['stages'].append({'stage': 'TRACE', 'spec': trace_module, 'events': n_events,
                                   'micro_traces': n_traces, 'rejected': len(rejections),
                                   'rejections_of_other_properties': other,
                                   'wall_s': round(time.time() - t0, 1), 'label': label or ''})
        return rejections

    def events_of(self, rej):
        """The recorded micro-trace of a rejection (for the replay file)."""
        out = []
        with open(rej['shard']) as fh:
            for ln in fh:
                if ('"tid": %d,' % rej['tid']) in ln or ('"tid":%d,' % rej['tid']) in ln:
                    out.append(json.loads(ln))
        return out

    # ---- verdicts --------------------------------------------------------------------------
    def report(self, rejections, describe=None, max_report=40):
        """Classify TLC's rejections as known findings or violations."""
        for rej in rejections:
            meta = rej.get('meta', {})
            v = {'clause': rej['clause'], 'module': meta.get('m', ''), 'site': meta.get('site', ''),
                 'witness': meta.get('w', ''), 'detail': meta}
            if describe:
                v.update(describe(rej) or {})
            k = match_finding(self.findings, v)
            if k is not None:
                self.known_hits.append((k, v))
            else:
                v['_rej'] = rej
                self.violations.append(v)

    def violation(self, clause, module='', site='', witness='', detail=None):
        """A violation decided by TLC in an MC stage (counter-example) or similar."""
        v = {'clause': clause, 'module': module, 'site': site, 'witness': witness, 'detail': detail or {}}
        k = match_finding(self.findings, v)
        if k is not None:
            self.known_hits.append((k, v))
        else:
            self.violations.append(v)

    def finish(self, samples=None, rule='', distinct_nontrivial=None, exhaustive=None, extra=None):
        cov = self.cov
        if samples:
            cov['samples'] = samples[:8]
        if not cov['samples']:
            cov['samples'] = [{'note': 'no sample recorded'}]
        cov['rule'] = rule
        if distinct_nontrivial is not None:
            cov['distinct_nontrivial'] = distinct_nontrivial
        if exhaustive is not None:
            cov['exhaustive'] = exhaustive
        if extra:
            cov.update(extra)
        cov['states'] = max(cov['states'], 1) if cov['transitions'] else cov['states']
        # known findings: one line per listed finding that was reproduced
        printed = set()
        for k, v in self.known_hits:
            f = self.findings[k]
            if k not in printed:
                printed.add(k)
                print('KNOWN-FINDING: property=%s %s' % (self.prop, f.get('what', f.get('note', ''))))
        cov['known_findings_reproduced'] = len(printed)
        cov['known_finding_events'] = len(self.known_hits)
        # violations
        groups = {}
        for v in self.violations:
            key = (v['clause'], v['module'], v['site'])
            groups.setdefault(key, []).append(v)
        rdir = os.path.join(lib.VERIF, 'replays', self.prop)
        n = 0
        for key, vs in sorted(groups.items()):
            os.makedirs(rdir, exist_ok=True)
            v = vs[0]
            rej = v.pop('_rej', None)
            doc = {'property': self.prop, 'clause': v['clause'], 'module': v['module'], 'site': v['site'],
                   'witness': v['witness'], 'detail': v['detail'], 'count_same_key': len(vs),
                   'tier': self.tier, 'seed': self.seed,
                   'others_same_key': [str(o.get('witness', ''))[:120] + ' | ' + str((o.get('detail') or {}).get('how', ''))
                                       for o in vs[1:40]]}
            if rej is not None:
                try:
                    doc['micro_trace'] = self.events_of(rej)
                except Exception:
                    pass
            path = os.path.join(rdir, '%s.json' % lib.sha([self.prop] + list(key) + [str(v['witness'])]))
            with open(path, 'w') as fh:
                json.dump(doc, fh, indent=1, default=str)
            print('VIOLATION property=%s replay=%s   # clause=%s module=%s site=%s witness=%r (%d like it)'
                  % (self.prop, path, v['clause'], v['module'], v['site'], str(v['witness'])[:80], len(vs)))
            n += 1
        ev = {'property_id': self.prop, 'tier': self.tier, 'seed': self.seed, 'level': self.level,
              'coverage': cov, 'assumptions': self.assumptions, 'wall_s': round(time.time() - self.t0, 1),
              'violations': n}
        os.makedirs(os.path.join(lib.VERIF, 'evidence'), exist_ok=True)
        with open(os.path.join(lib.VERIF, 'evidence', self.prop + '.json'), 'w') as fh:
            json.dump(ev, fh, indent=1, default=str)
        shutil.rmtree(self.work, ignore_errors=True)
        print('%s %s: %d events / %d micro-traces validated by TLC, %d states, %d violation group(s), %d known finding(s), %.0fs'
              % (self.prop, self.tier, cov['evaluations'], cov['traces_validated_against_impl'], cov['states'], n, len(printed), time.time() - self.t0))
        return 1 if n else 0


# ---------------------------------------------------------------------------------------------

class _Emit(object):
    def __init__(self, work, tag, i):
        self.path = os.path.join(work, '%s_%d.ndjson' % (tag, i))
        self.ipath = os.path.join(work, '%s_%d.index' % (tag, i))
        self.fh = open(self.path, 'w')
        self.ih = open(self.ipath, 'w')
        self.tid = 0
        self.n_events = 0
        self.extra = {}

    def trace(self, events, meta):
        if not events:
            return
        self.tid += 1
        for e in events:
            e2 = {'tid': self.tid}
            e2.update(e)
            self.fh.write(json.dumps(e2, ensure_ascii=True))
            self.fh.write('\n')
            self.n_events += 1
        self.ih.write(json.dumps([self.tid, meta], ensure_ascii=True, default=str))
        self.ih.write('\n')

    def count(self, key, n=1):
        self.extra[key] = self.extra.get(key, 0) + n

    def sample(self, key, value, cap=3):
        lst = self.extra.setdefault(key, [])
        if len(lst) < cap:
            lst.append(value)


def _drive_proc(work, tag, i, units, worker):
    try:
        emit = _Emit(work, tag, i)
        for u in units:
            worker(u, emit)
        emit.fh.close()
        emit.ih.close()
        with open(os.path.join(work, '%s_%d.stat' % (tag, i)), 'w') as fh:
            json.dump({'events': emit.path, 'index': emit.ipath, 'n_events': emit.n_events,
                       'n_traces': emit.tid, 'extra': emit.extra}, fh)
    except BaseException:
        traceback.print_exc()
        os._exit(3)
    os._exit(0)


def _load_index(path):
    out = {}
    with open(path) as fh:
        for ln in fh:
            tid, meta = json.loads(ln)
            out[tid] = meta
    return out


def merge_extra(shards):
    out = {}
    for s in shards:
        for k, v in s.get('extra', {}).items():
            if isinstance(v, list):
                out.setdefault(k, []).extend(v)
            else:
                out[k] = out.get(k, 0) + v
    return out


# ---------------------------------------------------------------------------------------------
# known findings

def load_findings(prop):
    path = os.path.join(lib.VERIF, 'known_findings.json')
    if not os.path.exists(path):
        return []
    with open(path) as fh:
        doc = json.load(fh)
    return [f for f in doc.get('findings', []) if f.get('property') == prop]


CHUNK_EVENTS = 250000
# trace specifications whose micro-traces (one tid each) are independent sessions: only these may be validated in pieces
CHUNKABLE = {'Trace_Api', 'Trace_CheckDigit', 'Trace_Typo', 'Trace_National', 'Trace_Formats', 'Trace_Convert', 'Trace_Dispatch', 'Trace_Getters'}


def _chunks(shard, limit):
    """A recorded shard is validated in pieces of at most `limit` events, cut between micro-traces (TLC reads a whole trace
    file into memory; the thorough tier records shards of millions of events).  Micro-traces are independent sessions, the
    index (tid -> description) is shared."""
    if shard['n_events'] <= limit:
        return [shard]
    out = []
    base = shard['events']
    part, n, traces, last_tid, k = None, 0, 0, None, 0
    with open(base) as fh:
        for ln in fh:
            m = re.search(r'"tid": ?(\d+)', ln)
            tid = m.group(1) if m else None
            if part is None or (n >= limit and tid != last_tid):
                if part is not None:
                    part.close()
                    out.append({'events': path, 'index': shard['index'], 'n_events': n, 'n_traces': traces})
                k += 1
                path = '%s.part%d' % (base, k)
                part = open(path, 'w')
                n, traces = 0, 0
            if tid != last_tid:
                traces += 1
                last_tid = tid
            part.write(ln)
            n += 1
    if part is not None:
        part.close()
        out.append({'events': path, 'index': shard['index'], 'n_events': n, 'n_traces': traces})
    return out


def match_finding(findings, v):
    """A finding lists property + a 'match' dict; every key present must match the violation:
    clause, module, site exactly; witness_re as a regular expression on the witness text."""
    for i, f in enumerate(findings):
        m = f.get('match', {})
        ok = True
        for key in ('clause', 'module', 'site'):
            if key in m:
                want = m[key]
                got = v.get(key, '')
                if isinstance(want, list):
                    ok = ok and got in want
                else:
                    ok = ok and got == want
        if 'witness_re' in m:
            ok = ok and re.search(m['witness_re'], str(v.get('witness', '')), re.S) is not None
        if 'witness' in m:
            ok = ok and str(v.get('witness', '')) == m['witness']
        det = v.get('detail', {}) or {}
        if 'how_re' in m:
            ok = ok and re.search(m['how_re'], str(det.get('how', '')), re.S) is not None
        if 'ret' in m:
            ok = ok and det.get('ret', None) == m['ret']
        if 'ret_re' in m:
            ok = ok and det.get('ret', None) is not None and re.search(m['ret_re'], str(det.get('ret')), re.S) is not None
        for fld, rx in (m.get('detail_re') or {}).items():
            ok = ok and re.search(rx, str(det.get(fld, '')), re.S) is not None
        if 'option_re' in m:
            ok = ok and re.search(m['option_re'], str(det.get('o', '')), re.S) is not None
        if ok:
            return i
    return None


TRACE_SPEC = {'C01': 'Trace_Api', 'C02': 'Trace_Api', 'C03': 'Trace_Api', 'C04': 'Trace_Api', 'C15': 'Trace_Api', 'C05': 'Trace_CheckDigit',
              'C08': 'Trace_Convert', 'C09': 'Trace_Dispatch', 'C12': 'Trace_Getters', 'C17': 'Trace_Typo', 'C18': 'Trace_Wsgi', 'C16': 'Trace_GS1'}


def replay(prop, path):
    """./check Cxx --replay <file>: shows the recorded violation, lets TLC judge the recorded micro-trace again and, for
    sessions on a single module, calls the library again with the recorded input to show what it does now."""
    with open(path) as fh:
        doc = json.load(fh)
    print('replay of %s: clause %s, module %s, site %s' % (path, doc.get('clause'), doc.get('module'), doc.get('site')))
    print('witness: %r' % (doc.get('witness'),))
    print('detail: %s' % json.dumps(doc.get('detail'), ensure_ascii=True)[:1500])
    mt = doc.get('micro_trace') or []
    rc = 0
    spec = TRACE_SPEC.get(prop)
    if mt and spec:
        work = lib.workdir(prop + '_replay')
        tp = os.path.join(work, 'replay.ndjson')
        with open(tp, 'w') as fh:
            for e in mt:
                fh.write(json.dumps(e) + '\n')
        r = tlc.run(spec, workdir=work, env={'TRACE_FILE': tp}, workers=1)
        rej = [ln for ln in r.prints if 'REJ' in ln[:10]]
        print('TLC (%s) on the recorded micro-trace: %s' % (spec, '; '.join(rej) if rej else 'accepted'))
        if rej:
            rc = 1
        shutil.rmtree(work, ignore_errors=True)
    mod, w = doc.get('module'), doc.get('witness')
    if isinstance(mod, str) and isinstance(w, str) and any(mod == n for n, _ in lib.modules()):
        m = lib.module(mod)
        for fn in ('compact', 'validate', 'is_valid', 'format'):
            if hasattr(m, fn):
                r = lib.call(getattr(m, fn), w)
                print('now: %s.%s(%r) -> %s' % (mod, fn, w, (lib.from_cps(r['v']) if r['t'] == 'str' else (r['b'] if r['t'] == 'bool' else r['j'])) if r['k'] == 'ret'
                                                 else 'raises %s at %s' % (r['cls'], r['site'])))
    if rc:
        print('VIOLATION property=%s replay=%s' % (prop, path))
    return rc


def main(fn, prop):
    if os.environ.get('VERIF_REPLAY'):
        try:
            sys.exit(replay(prop, os.environ['VERIF_REPLAY']))
        except SystemExit:
            raise
        except BaseException:
            traceback.print_exc()
            sys.exit(2)
    try:
        rc = fn()
    except MachineryError as e:
        print('MACHINERY-ERROR property=%s %s' % (prop, e), file=sys.stderr)
        sys.exit(2)
    except SystemExit:
        raise
    except BaseException:
        traceback.print_exc()
        sys.exit(2)
    sys.exit(rc)
