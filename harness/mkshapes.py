"""Writes bindings/checkdigit_shapes.json: per bound generator row up to 12 numbers of the corpus that validate() of the
tree it is run on accepts and that lie in the row's domain.  Run once on the unchanged tree and commit the result: the
numbers are used only as well-formed payloads for clause p3 of C05 (see props/c05.py)."""
import json, os, random, re, sys
sys.path.insert(0, os.path.join(os.path.dirname(os.path.abspath(__file__))))
from vlib import lib
b = json.load(open(os.path.join(lib.VERIF, 'bindings', 'checkdigit.json')))
out = {}
for key, row in sorted(b['rows'].items()):
    name = key.split(':')[0]
    mod = lib.module(name)
    vopts = b.get('validate_options', {}).get(name, {})
    excl = set(getattr(mod, row['exclude_attr'])) if row.get('exclude_attr') else set()
    vals = []
    for c in lib.corpus(name, mod):
        try:
            v = mod.validate(c, **vopts)
        except Exception:
            continue
        if isinstance(v, str) and v not in vals and v not in excl and len(v) >= 3 and (not row.get('domain_re') or re.search(row['domain_re'], v)):
            vals.append(v)
    vals.sort()
    rnd = random.Random(key)
    out[key] = sorted(rnd.sample(vals, 12)) if len(vals) > 12 else vals
json.dump(out, open(os.path.join(lib.VERIF, 'bindings', 'checkdigit_shapes.json'), 'w'), indent=0, sort_keys=True, ensure_ascii=True)
print(sum(len(v) for v in out.values()), 'shapes for', len(out), 'rows;', [k for k, v in out.items() if not v], 'have none')
