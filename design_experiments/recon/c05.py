import warnings, sys, collections, inspect
warnings.simplefilter('ignore')
sys.path.insert(0, __import__('os').path.dirname(__file__))
from corpus import mods, corpus
res={}
for m in mods:
    fns=[n for n,f in inspect.getmembers(m, inspect.isfunction) if n.startswith('calc_check_digit') and f.__module__==m.__name__ or n in('calc_check_digit','calc_check_digits') and hasattr(m,n)]
    fns=sorted(set(fns))
    if not fns: continue
    co=[m.validate(c) for c in corpus(m)][:60]
    for fn in fns:
        f=getattr(m,fn)
        try: nreq=len([p for p in inspect.signature(f).parameters.values() if p.default is p.empty])
        except Exception: nreq=1
        conv=collections.Counter()
        for v in co:
            tries={'a:v[:-1]->v[-1]':(v[:-1],v[-1:]),'b:v[:-2]->v[-2:]':(v[:-2],v[-2:]),'c:v->v[-1]':(v,v[-1:]),'d:v->v[-2:]':(v,v[-2:]),'e:v[:-2]->v[-2]':(v[:-2],v[-2:-1]),'f:v[:-1]->v[-2:]':(v[:-1], v[-2:])}
            for k,(arg,exp) in tries.items():
                try:
                    if nreq==1 and str(f(arg))==exp: conv[k]+=1
                except Exception: pass
        best=conv.most_common(1)
        res[(m.__name__,fn)]=(len(co),best[0] if best else None,nreq)
full=[k for k,(n,b,r) in res.items() if b and b[1]==n]
part=[(k,v) for k,v in res.items() if not(v[1] and v[1][1]==v[0])]
print(len(res),'fn; fully explained by a simple convention:',len(full))
for k,v in part: print('  ',k,v)
