import re, stdnum.util as u
u._digits_re = re.compile(r'^[0-9]+\Z')
exec(open(__import__('os').path.join(__import__('os').path.dirname(__file__),'c01.py')).read())
