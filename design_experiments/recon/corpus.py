import warnings, re, glob, os, sys
warnings.simplefilter('ignore')
from stdnum.util import get_number_modules
from stdnum.exceptions import ValidationError
mods=list(get_number_modules())
def cands_for(m):
    name=m.__name__
    texts=[m.__doc__ or '']
    short=name.replace('stdnum.','').replace('.','_').replace('in__','in_').replace('is__','is_')
    for f in glob.glob('/repo/tests/test_%s.doctest'%short.rstrip('_')) + glob.glob('/repo/tests/test_%s.doctest'%short):
        texts.append(open(f,encoding='utf-8').read())
    c=set()
    for t in texts:
        for mm in re.finditer(r"'([^'\n]{2,60})'", t): c.add(mm.group(1))
        for line in t.splitlines():
            s=line.strip()
            if s.startswith('... '): s=s[4:]
            if 2<=len(s)<=60: c.add(s)
    return c
def corpus(m):
    out=[]
    for c in sorted(cands_for(m)):
        try:
            if m.is_valid(c): out.append(c)
        except Exception as e:
            pass
    return out
if __name__=='__main__':
    tot=0; empty=[]
    for m in mods:
        co=corpus(m); tot+=len(co)
        if not co: empty.append(m.__name__)
    print(tot, empty)
