import warnings, sys, re, datetime, decimal, collections
warnings.simplefilter('ignore')
from stdnum import gs1_128, numdb
from stdnum.exceptions import ValidationError
db=numdb.get('gs1_ai')
ais=[]
for length,low,high,props,children in db.prefixes:
    ais.append((low,high,props))
print(len(ais))
def sample(ai,p):
    fmt,typ=p['format'],p['type']
    if typ=='date':
        if fmt=='N6': return [datetime.date(2024,2,29), datetime.date(1999,12,31)]
        if fmt=='N10': return [datetime.datetime(2024,2,29,13,45)]
        if fmt in('N6[+N6]','N6..12'): return [datetime.date(2024,1,2),(datetime.date(2024,1,2),datetime.date(2024,3,4))]
        if fmt=='N6[+N4]': return [datetime.datetime(2024,1,2,0,0), datetime.datetime(2024,1,2,13,45)]
        if fmt=='N8[+N..4]': return [datetime.datetime(2024,1,2,3,0,0), datetime.datetime(2024,1,2,3,4,5)]
    if typ=='decimal':
        if fmt.startswith('N3+'): return [('978',decimal.Decimal('12.50'))]
        return [decimal.Decimal('1.5'),decimal.Decimal('123'),decimal.Decimal('0.001')]
    if typ=='int': return [0,7,123]
    # str
    parts=fmt.split('+')
    def one(part,full):
        m=re.match(r'^\[?([NXYZ])(\.\.)?(\d+)\]?$',part)
        if not m: return None
        c,var,n=m.group(1),m.group(2),int(m.group(3))
        ch='7' if c=='N' else 'A'
        return ch*(n if (not var or full) else 1)
    outs=[]
    for full in (True,False):
        ps=[one(x,full) for x in parts]
        if None in ps: return []
        outs.append(''.join(ps))
    return outs
bad=collections.Counter(); ex={}
n=0
for low,high,p in ais:
    ai=low
    for v in sample(ai,p):
        for sep in ('','\x1d'):
          for extra in ({}, {'10':'LOT1','21':'SER'}):
            d={ai:v}; d.update(extra)
            n+=1
            try:
                e=gs1_128.encode(d,separator=sep)
                back=gs1_128.info(e,separator=sep)
                if back!=d:
                    k=(p['format'],p['type'],bool(sep),bool(extra),'mismatch'); bad[k]+=1; ex[k]=(ai,v,e,back.get(ai))
                v1=gs1_128.validate(e,separator=sep)
                if gs1_128.validate(v1,separator=sep)!=v1: bad[('revalidate',)]+=1
            except Exception as ee:
                k=(p['format'],p['type'],bool(sep),bool(extra),type(ee).__name__); bad[k]+=1; ex[k]=(ai,v)
print(n)
for k,v in sorted(bad.items(), key=str): print(k,v,ex.get(k))
