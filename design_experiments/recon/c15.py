import warnings, sys, collections, random, re
warnings.simplefilter('ignore')
sys.path.insert(0, __import__('os').path.dirname(__file__))
import stdnum.util as u
u._digits_re = re.compile(r'^[0-9]+\Z')
from corpus import mods, corpus
from stdnum.exceptions import ValidationError
random.seed(1)
GEN={'stdnum.luhn','stdnum.verhoeff','stdnum.damm','stdnum.iso7064.mod_11_2','stdnum.iso7064.mod_11_10','stdnum.iso7064.mod_37_2','stdnum.iso7064.mod_37_36','stdnum.iso7064.mod_97_10'}
F=collections.defaultdict(list); E=collections.defaultdict(list)
def alt(ch):
    if ch.isdigit() and ch.isascii():
        d=int(ch); return [chr(0x660+d), chr(0x966+d), chr(0x1D7CE+d) , chr(0xFF10+d), {1:'¹',2:'²',3:'³'}.get(d,chr(0x2070+d)), chr(0x2460+d-1) if d else '⓪']
    if ch.isalpha() and ch.isascii():
        return [{'A':'Α','B':'Β','E':'Ε','K':'K','S':'ſ','I':'ı','M':'М'}.get(ch.upper(),'É'), 'ß', chr(0xFF21+ord(ch.upper())-65)]
    return []
for m in mods:
    if m.__name__ in GEN: continue
    co=corpus(m)
    for b in co[:25]:
        for i,ch in enumerate(b):
            for a in alt(ch):
                y=b[:i]+a+b[i+1:]
                try:
                    v=m.validate(y)
                    if not v.isascii(): F[m.__name__].append((y,v))
                except ValidationError: pass
                except Exception as e: E[m.__name__].append((y,type(e).__name__))
print('non-ascii accepted:',len(F))
for k,v in sorted(F.items()): print('  ',k,len(v),v[0])
print('crash:',len(E))
for k,v in sorted(E.items()): print('  ',k,len(v),v[0])
