import warnings, sys, collections, importlib
warnings.simplefilter('ignore')
sys.path.insert(0, __import__('os').path.dirname(__file__))
from corpus import corpus
from stdnum.exceptions import ValidationError
I=lambda n: importlib.import_module('stdnum.'+n)
convs=[('isbn','to_isbn13','isbn','to_isbn10'),('isbn','to_isbn10','isbn','to_isbn13'),('ismn','to_ismn13','ismn',None),('issn','to_ean','ean',None),
 ('cusip','to_isin','isin',None),('gb.sedol','to_isin','isin',None),('de.wkn','to_isin','isin',None),('es.ccc','to_iban','es.iban','to_ccc'),('no.kontonr','to_iban','no.iban','to_kontonr'),
 ('au.acn','to_abn','au.abn',None),('fr.siret','to_siren','fr.siren',None),('fr.siren','to_tva','fr.tva',None),('fr.siret','to_tva','fr.tva',None),('pe.cui','to_ruc','pe.ruc','to_dni'),
 ('in_.gstin','to_pan','in_.pan',None),('it.aic','to_base32','it.aic','from_base32'),('it.aic','from_base32','it.aic','to_base32'),('de.stnr','to_country_number','de.stnr','to_regional_number'),('de.stnr','to_regional_number','de.stnr','to_country_number')]
for src,fn,dst,inv in convs:
    S=I(src); D=I(dst); f=getattr(S,fn); g=getattr(D,inv) if inv else None
    co=corpus(S)[:150]; n=bad=0; ex=[]
    for b in co:
        v=S.validate(b)
        for x in {v,b}:
            n+=1
            try:
                w=f(x)
            except ValidationError as e:
                continue
            except Exception as e:
                bad+=1; ex.append((x,type(e).__name__)); continue
            if not D.is_valid(w): bad+=1; ex.append((x,w,'target-invalid')); continue
            if g:
                try:
                    back=g(w)
                    if S.compact(back)!=S.compact(x) and D.compact(back)!=D.compact(x): bad+=1; ex.append((x,w,back,'inverse'))
                except ValidationError: pass
                except Exception as e: bad+=1; ex.append((x,w,type(e).__name__,'inv-exc'))
    print(src,fn,n,bad,ex[:2])
