import warnings, sys, collections, string, importlib
warnings.simplefilter('ignore')
sys.path.insert(0, __import__('os').path.dirname(__file__))
from corpus import corpus
from stdnum.eu import vat as euvat
from stdnum import vatin, iban
from stdnum.exceptions import ValidationError
from stdnum.util import clean, get_cc_module
def out(f,*a,**k):
    try: return ('ok',f(*a,**k))
    except ValidationError as e: return ('rej',)
    except Exception as e: return ('EXC',type(e).__name__)
bad=collections.defaultdict(list)
STATES=sorted(euvat.MEMBER_STATES)
n=0
for cc in STATES+['el']:
    real={'xi':'gb','el':'gr'}.get(cc,cc)
    mod=get_cc_module(real,'vat')
    co=corpus(mod)[:40]
    for b in co:
        v=mod.validate(b)
        pref=cc.upper()
        for x in {b, v, pref+v if not v.startswith(pref) else v, pref.lower()+v, pref+' '+b, ' '+pref+v+' '}:
            proj=clean(x,'').upper().strip()
            if proj[:2]!=pref: continue
            n+=1
            w=out(euvat.validate,x); c=out(mod.validate,proj)
            exp=c
            if c[0]=='ok':
                r=c[1]; exp=('ok', r if r.startswith(pref) else pref+r)
            if w!=exp: bad['euvat:'+cc].append((x,w,exp))
            # vatin superset
            if w[0]=='ok':
                vi=out(vatin.validate,x)
                if vi!=w: bad['vatin:'+cc].append((x,w,vi))
            # guess_country
        g=set(euvat.guess_country(b)); e={s for s in STATES if get_cc_module({'xi':'gb'}.get(s,s),'vat').is_valid(b)}
        if g!=e: bad['guess:'+cc].append((b,g,e))
print(n)
for k,v in bad.items(): print(k,len(v),v[:2])
# iban
bi=collections.Counter()
for b in corpus(iban)[:400]:
    v=iban.validate(b); cc=v[:2]
    nm=get_cc_module(cc,'iban')
for cc in ('be','es','no','me'):
    nm=get_cc_module(cc,'iban')
    for b in corpus(nm)+corpus(iban):
        a=out(iban.validate,b); g=out(iban.validate,b,check_country=False)
        c=iban.compact(b)[:2].lower()
        nat=get_cc_module(c,'iban') if c.isalpha() else None
        exp = g if (g[0]!='ok' or nat is None or out(nat.validate,b)[0]=='ok') else ('rej',)
        if a!=exp: bi[(cc,b)]+=1
print('iban mismatches',len(bi), list(bi)[:3])
