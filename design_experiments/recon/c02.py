import warnings, sys, collections, random, re
warnings.simplefilter('ignore')
sys.path.insert(0, __import__('os').path.dirname(__file__))
import stdnum.util as u
u._digits_re = re.compile(r'^[0-9]+\Z')
from corpus import mods, corpus
from stdnum.exceptions import ValidationError
random.seed(1)
DECOR=[' ','-','.','/',':','\n','\t','–','−','　','\xa0',',','*',"'"]
def out(f,x):
    try: return ('ok',f(x))
    except ValidationError as e: return ('err',)
    except Exception as e: return ('EXC',type(e).__name__)
F=collections.defaultdict(lambda: collections.defaultdict(list))
for m in mods:
    co=corpus(m)
    name=m.__name__
    for b in co[:40]:
        v=m.validate(b)
        # C02
        o=out(m.validate,v)
        if o!=('ok',v): F['C02'][name].append((b,v,o))
        if v!=v.strip(): F['C02ws'][name].append((b,v))
        if not v.isascii(): F['C15'][name].append((b,v))
        # C04
        if hasattr(m,'format'):
            try:
                f=m.format(b)
                o=out(m.validate,f)
                if o!=('ok',v): F['C04a'][name].append((b,f,o,v))
                f2=m.format(v)
                if f2!=f: F['C04b'][name].append((b,f,f2))
            except Exception as e:
                F['C04x'][name].append((b,type(e).__name__))
        # C03
        if hasattr(m,'compact'):
            try: cb=m.compact(b)
            except Exception: continue
            for d in DECOR:
                for pos in range(len(b)+1):
                    y=b[:pos]+d+b[pos:]
                    try: cy=m.compact(y)
                    except Exception: continue
                    if cy==cb:
                        o=out(m.validate,y)
                        if o!=('ok',v): F['C03'][name].append((b,y,o)); break
            for y in (b.lower(), b.upper(), b.swapcase()):
                try: cy=m.compact(y)
                except Exception: continue
                if cy==cb:
                    o=out(m.validate,y)
                    if o!=('ok',v): F['C03'][name].append((b,y,o))
for k in sorted(F):
    print('=====',k,len(F[k]))
    for n,v in sorted(F[k].items()):
        print('  ',n,len(v),v[0])
