import warnings, sys, collections, string, importlib
warnings.simplefilter('ignore')
sys.path.insert(0, __import__('os').path.dirname(__file__))
from corpus import corpus
SUB=['isbn','ean','issn','ismn','imei','isni','iban','lei','iso11649','grid','ca.sin','fr.siren','il.idnr','se.orgnr','in_.aadhaar','in_.vid','hr.oib','de.idnr','de.vat']
SWAP=['isbn','issn','isni','iban','lei','iso11649','in_.aadhaar','in_.vid']
for name in SUB:
    m=importlib.import_module('stdnum.'+name)
    co=sorted(set(m.validate(c) for c in corpus(m)))[:150]
    nsub=bad=nsw=badsw=0; ex=[]; exs=[]
    for v in co:
        if name=='imei' and len(v)!=15: continue
        for i,ch in enumerate(v):
            if ch.isdigit(): alts=[d for d in string.digits if d!=ch]
            elif ch.isalpha(): alts=[d for d in string.ascii_uppercase if d!=ch]
            else: continue
            for a in alts:
                w=v[:i]+a+v[i+1:]; nsub+=1
                if m.is_valid(w): bad+=1; ex.append((v,w))
        if name in SWAP:
            for i in range(len(v)-1):
                a,b=v[i],v[i+1]
                if a!=b and a.isdigit() and b.isdigit():
                    if name=='isbn' and len(v)!=10: continue
                    w=v[:i]+b+a+v[i+2:]; nsw+=1
                    if m.is_valid(w): badsw+=1; exs.append((v,w))
    print(name,len(co),'subst',nsub,'accepted',bad,ex[:2],'swap',nsw,'accepted',badsw,exs[:2])
