import warnings, sys, collections, random, re, importlib.util, importlib.machinery, urllib.parse, json, traceback
warnings.simplefilter('ignore')
sys.path.insert(0, __import__('os').path.dirname(__file__))
from corpus import mods, corpus
so=sys.stdout
loader=importlib.machinery.SourceFileLoader('wsgiapp','/repo/online_check/stdnum.wsgi')
spec=importlib.util.spec_from_loader('wsgiapp',loader); app=importlib.util.module_from_spec(spec); loader.exec_module(app)
sys.stdout=so
def call(q, ajax=False):
    env={'DOCUMENT_ROOT':'/repo/online_check','SCRIPT_NAME':'/stdnum.wsgi','QUERY_STRING':q}
    if ajax: env['HTTP_X_REQUESTED_WITH']='XMLHttpRequest'
    st=[]
    body=b''.join(app.application(env, lambda s,h: st.append((s,h))))
    return st[0][0], body
fails=collections.Counter(); ex={}
random.seed(2)
n=0
for m in mods:
    co=corpus(m)
    for b in random.sample(co,min(4,len(co))):
        for ajax in (False,True):
            n+=1
            try:
                s,body=call('number='+urllib.parse.quote(b),ajax)
                if ajax: json.loads(body)
            except Exception as e:
                k=(m.__name__,ajax,type(e).__name__, traceback.extract_tb(e.__traceback__)[-1].name)
                fails[k]+=1; ex[k]=(b,str(e)[:100])
print(n)
for k,v in sorted(fails.items()): print(k,v,ex[k])
