import warnings, sys, collections, random
warnings.simplefilter('ignore')
sys.path.insert(0, __import__('os').path.dirname(__file__))
from corpus import mods, corpus
from stdnum.exceptions import ValidationError
random.seed(1)
HOST=['\n','\r','\t','\x00','\x0b','\x1c','\x1f','\x85',' ','٣','३','²','①','ß','ŉ','İ','ı','ǰ','ſ','K','Å','é','Ω','я','０','Ａ','\ud800','\U0001d7d8','𝟗','一','〇','Ⅷ','½',' ','-','.','/',':','*',',',"'",'−','–']
fails=collections.defaultdict(list)
def probe(m,x):
    try:
        r=m.validate(x)
        ok=isinstance(r,str)
        if not ok: fails[m.__name__].append(('nonstr',repr(x),repr(r)))
        rv=True
    except ValidationError: rv=False
    except Exception as e:
        fails[m.__name__].append((type(e).__name__,repr(x))); rv=None
    try:
        iv=m.is_valid(x)
        if iv is not True and iv is not False: fails[m.__name__].append(('isvalid-nonbool',repr(x),repr(iv)))
        elif rv is not None and iv!=rv: fails[m.__name__].append(('isvalid-mismatch',repr(x)))
    except Exception as e:
        fails[m.__name__].append(('isvalid-raise:'+type(e).__name__,repr(x)))
n=0
for m in mods:
    co=corpus(m)
    base=random.sample(co,min(3,len(co)))
    for x in [None,0,1.5,b'123',[],['1','2'],object(),'', ' ', '\n', True, ('1','2'), {'a':1}]:
        probe(m,x); n+=1
    for b in base:
        for h in HOST:
            for pos in {0,1,2,len(b)//2,len(b)-2,len(b)-1,len(b)}:
                if 0<=pos<=len(b):
                    probe(m,b[:pos]+h+b[pos:]); n+=1
                    if pos<len(b): probe(m,b[:pos]+h+b[pos+1:]); n+=1
        probe(m,b*50); probe(m,b.lower()); probe(m,b.upper()); probe(m, b+'\n')
print(n)
tot=0
for k,v in sorted(fails.items()):
    kinds=collections.Counter(x[0] for x in v)
    print(k, dict(kinds), v[0][:3])
    tot+=1
print('modules failing',tot)
