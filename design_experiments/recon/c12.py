import warnings, sys, collections, inspect, datetime
warnings.simplefilter('ignore')
sys.path.insert(0, __import__('os').path.dirname(__file__))
from corpus import mods, corpus
from stdnum.exceptions import ValidationError
bad=collections.defaultdict(list); kinds=collections.defaultdict(collections.Counter)
for m in mods:
    gs=[(n,f) for n,f in inspect.getmembers(m, inspect.isfunction) if (n.startswith('get_') or n in('info','split') or n.endswith('_type')) and [p.name for p in inspect.signature(f).parameters.values() if p.default is p.empty]==['number'] and n not in ('get_soap_client','get_cc_module')]
    if not gs: continue
    co=corpus(m)
    for b in co[:200]:
        v=m.validate(b)
        for n,f in gs:
            for x in (b,v):
                try:
                    r=f(x); kinds[(m.__name__,n)][type(r).__name__]+=1
                    if n=='get_gender' and r not in ('M','F',None): bad[(m.__name__,n,'gender')].append((x,r))
                    if n=='split':
                        cat=''.join(r)
                        if cat!=v: bad[(m.__name__,n,'concat')].append((x,r,v))
                except ValidationError: kinds[(m.__name__,n)]['VE']+=1
                except Exception as e: bad[(m.__name__,n,type(e).__name__)].append((x,str(e)[:40]))
print(len(kinds))
for k,v in bad.items(): print(k,len(v),v[0])
for k,v in sorted(kinds.items()): 
    if 'VE' in v or len(v)>1: print('  mixed',k,dict(v))
