---- MODULE Blk ----
EXTENDS Naturals, Sequences, TLC, Json, IOUtils
Trace == ndJsonDeserialize(IOEnv.TRACE_FILE)
VARIABLES l, rejected
\* ISSN (ISO 3297): weights 8..2 over the seven payload digits, check = (11 - sum mod 11) mod 11, 10 -> X
Digit(p, i) == (p \div (10^(7-i))) % 10      \* i in 1..7, most significant first
Check(p) == LET s == 8*Digit(p,1)+7*Digit(p,2)+6*Digit(p,3)+5*Digit(p,4)+4*Digit(p,5)+3*Digit(p,6)+2*Digit(p,7)
                c == (11 - (s % 11)) % 11
            IN IF c = 10 THEN 88 ELSE 48 + c
BlockOK(e) == \A k \in 1..10000 : e.out[k] = Check(e.block*10000 + k - 1)
Init == l = 1 /\ rejected = <<>>
Next == /\ l <= Len(Trace)
        /\ rejected' = IF BlockOK(Trace[l]) THEN rejected ELSE Append(rejected, Trace[l].tid)
        /\ l' = l + 1
Spec == Init /\ [][Next]_<<l,rejected>>
Accepted == /\ TLCGet("stats").diameter - 1 = Len(Trace)
====
