---- MODULE PAX ----
EXTENDS Naturals, Sequences, TLC, Json, IOUtils, FiniteSets
D == JsonDeserialize(IOEnv.DELTA_FILE)
Delta == [k \in {<<D.delta[i].q, D.delta[i].p, D.delta[i].c>> : i \in 1..Len(D.delta)} |->
            (CHOOSE i \in 1..Len(D.delta) : <<D.delta[i].q, D.delta[i].p, D.delta[i].c>> = k)]
Step(q, p, c) == D.delta[Delta[<<q,p,c>>]].q2
Total == Cardinality(DOMAIN Delta) = 10 * 8 * 10
VARIABLES q1, q2, p, phase
vars == <<q1,q2,p,phase>>
Init == q1 = 0 /\ q2 = 0 /\ p = 0 /\ phase = "same"
Same == \E c \in 0..9 : q1' = Step(q1,p,c) /\ q2' = Step(q2,p,c) /\ p' = (p+1)%8 /\ UNCHANGED phase
Subst == phase = "same" /\ \E a \in 0..9, b \in 0..9 : a # b /\ q1' = Step(q1,p,a) /\ q2' = Step(q2,p,b) /\ p' = (p+1)%8 /\ phase' = "after"
Swap == phase = "same" /\ \E a \in 0..9, b \in 0..9 : a # b
          /\ q1' = Step(Step(q1,p,a),(p+1)%8,b) /\ q2' = Step(Step(q2,p,b),(p+1)%8,a) /\ p' = (p+2)%8 /\ phase' = "after"
Next == Same \/ Subst \/ Swap
Spec == Init /\ [][Next]_vars
Detected == phase = "after" => q1 # q2
ASSUME Total
====
