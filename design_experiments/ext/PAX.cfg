SPECIFICATION Spec
INVARIANT Detected
CHECK_DEADLOCK FALSE
