---- MODULE Tr ----
EXTENDS Naturals, Sequences, TLC, Json, IOUtils
Trace == ndJsonDeserialize(IOEnv.TRACE_FILE)
VARIABLES l, bad
Ws == {32, 9, 10, 11, 12, 13}
NoWs(s) == s = <<>> \/ (s[1] \notin Ws /\ s[Len(s)] \notin Ws)
IsAscii(s) == \A i \in 1..Len(s) : s[i] < 128
Init == l = 1 /\ bad = 0
Next == /\ l <= Len(Trace)
        /\ LET e == Trace[l] IN
             /\ e.kind \in {"str","InvalidFormat","InvalidChecksum","InvalidLength","InvalidComponent"}
             /\ bad' = IF e.kind = "str" /\ ~(NoWs(e.out) /\ IsAscii(e.out)) THEN bad + 1 ELSE bad
        /\ l' = l + 1
Spec == Init /\ [][Next]_<<l,bad>>
Accepted == TLCGet("stats").diameter - 1 = Len(Trace)
====
