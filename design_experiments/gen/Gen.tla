---- MODULE Gen ----
EXTENDS Naturals, Sequences, TLC, Json
Ops == {"ins","rep","del"}
Cls == {"nl","nd","sep","ctl"}
Pos == {"first","mid","last","end"}
VARIABLES hist
Init == hist = <<>>
Next == /\ Len(hist) < 2
        /\ \E o \in Ops, c \in Cls, p \in Pos : hist' = Append(hist, [op |-> o, cls |-> c, pos |-> p])
Spec == Init /\ [][Next]_hist
Emit == PrintT(<<"CASE", ToJson(hist)>>)
====
