SPECIFICATION Spec
INVARIANT RT1
CHECK_DEADLOCK FALSE
