---- MODULE G ----
EXTENDS Naturals, Sequences, SequencesExt, FiniteSets, TLC
\* characters: 1,2 = value symbols 'a','b'; 10,11 = digits '0','1'; 20 = space pad; 30 = separator; 40.. = AI ids
SEP == 30  PAD == 20
AIs == [ f1 |-> [id |-> 41, var |-> FALSE, max |-> 2, int |-> FALSE],
         f2 |-> [id |-> 42, var |-> FALSE, max |-> 1, int |-> FALSE],
         v1 |-> [id |-> 43, var |-> TRUE,  max |-> 2, int |-> FALSE],
         v2 |-> [id |-> 44, var |-> TRUE,  max |-> 3, int |-> FALSE],
         v3 |-> [id |-> 45, var |-> TRUE,  max |-> 2, int |-> TRUE ] ]
Names == <<"f1","f2","v1","v2","v3">>            \* sorted by id
ById(c) == CHOOSE n \in DOMAIN AIs : AIs[n].id = c
StrVals(k) == UNION {[1..j -> {1,2}] : j \in 1..k}
IntVals(k) == UNION {[1..j -> {10,11}] : j \in 1..k}
Vals(n) == IF AIs[n].int THEN IntVals(AIs[n].max)
           ELSE IF AIs[n].var THEN StrVals(AIs[n].max) ELSE [1..AIs[n].max -> {1,2}]
\* canonical int values have no leading zero (except "0")
Canon(n, v) == IF AIs[n].int THEN (Len(v) = 1 \/ v[1] # 10) ELSE TRUE
PadTo(n, v) == IF AIs[n].int THEN [i \in 1..(AIs[n].max - Len(v)) |-> 10] \o v
               ELSE v \o [i \in 1..(AIs[n].max - Len(v)) |-> PAD]
Encode(m, useSep) ==
  LET present == SelectSeq(Names, LAMBDA n : n \in DOMAIN m)
      fixed == SelectSeq(present, LAMBDA n : ~AIs[n].var)
      vars  == SelectSeq(present, LAMBDA n : AIs[n].var)
      fx == FoldLeft(LAMBDA acc, n : acc \o <<AIs[n].id>> \o m[n], <<>>, fixed)
      vx == FoldLeft(LAMBDA acc, i :
                acc \o <<AIs[vars[i]].id>> \o
                (IF i < Len(vars) THEN (IF useSep THEN m[vars[i]] \o <<SEP>> ELSE PadTo(vars[i], m[vars[i]]))
                 ELSE m[vars[i]]), <<>>, [i \in 1..Len(vars) |-> i])
  IN fx \o vx
Strip(v) == LET nz == {i \in 1..Len(v) : v[i] # PAD} IN
            IF nz = {} THEN <<>> ELSE SubSeq(v, CHOOSE i \in nz : \A j \in nz : i <= j, CHOOSE i \in nz : \A j \in nz : i >= j)
RECURSIVE StripZeros(_)
StripZeros(v) == IF Len(v) > 1 /\ v[1] = 10 THEN StripZeros(Tail(v)) ELSE v
IndexOf(s, c) == IF \E i \in 1..Len(s) : s[i] = c THEN CHOOSE i \in 1..Len(s) : s[i] = c /\ \A j \in 1..(i-1) : s[j] # c ELSE 0
RECURSIVE Decode(_,_,_)
Decode(s, useSep, acc) ==
  IF s = <<>> THEN acc
  ELSE IF useSep /\ s[1] = SEP THEN Decode(Tail(s), useSep, acc)
  ELSE IF s[1] < 40 THEN [err |-> "noai"]
  ELSE LET n == ById(s[1])
           rest == Tail(s)
           byLen == SubSeq(rest, 1, IF Len(rest) < AIs[n].max THEN Len(rest) ELSE AIs[n].max)
           idx == IndexOf(rest, SEP)
           val == IF useSep /\ AIs[n].var /\ idx > 1 THEN SubSeq(rest, 1, idx - 1) ELSE byLen
           dec == IF AIs[n].int THEN StripZeros(val) ELSE Strip(val)
       IN Decode(SubSeq(rest, Len(val) + 1, Len(rest)), useSep, [k \in DOMAIN acc \cup {n} |-> IF k = n THEN dec ELSE acc[k]])
VARIABLES m, sep
Init == m = <<>> /\ sep \in BOOLEAN
Add == Cardinality(DOMAIN m) < 3 /\ \E n \in DOMAIN AIs \ DOMAIN m : \E v \in Vals(n) :
         Canon(n, v) /\ m' = [k \in DOMAIN m \cup {n} |-> IF k = n THEN v ELSE m[k]] /\ UNCHANGED sep
Spec == Init /\ [][Add]_<<m, sep>>
RT1 == Decode(Encode(m, sep), sep, <<>>) = m
====
