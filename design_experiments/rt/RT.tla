---- MODULE RT ----
EXTENDS Naturals, Sequences, FiniteSets, TLC
CONSTANTS Threads, Names, MaxCalls, StoreFirst, BaseKey
\* Key models how the cache is keyed: identity (code) or basename (hazard variant)
Base(n) == IF n \in {"be/banks","cz/banks"} THEN "banks" ELSE n
Key(n) == IF BaseKey THEN Base(n) ELSE n
Keys == {Key(n) : n \in Names}
File(n) == <<"content", n>>
Absent == [owner |-> "none", full |-> FALSE, present |-> FALSE]            \* the parse of registry n
VARIABLES cache,   \* key -> "absent" | [owner: name, full: BOOLEAN]
          pc, arg, calls, ret
vars == <<cache, pc, arg, calls, ret>>
Init == /\ cache = [k \in Keys |-> Absent]
        /\ pc = [t \in Threads |-> "idle"] /\ arg = [t \in Threads |-> "none"]
        /\ calls = [t \in Threads |-> 0] /\ ret = [t \in Threads |-> "none"]
Enter(t) == pc[t] = "idle" /\ calls[t] < MaxCalls /\ \E n \in Names :
              arg' = [arg EXCEPT ![t] = n] /\ pc' = [pc EXCEPT ![t] = "check"]
              /\ calls' = [calls EXCEPT ![t] = @ + 1] /\ UNCHANGED <<cache, ret>>
Check(t) == pc[t] = "check" /\ pc' = [pc EXCEPT ![t] = IF ~cache[Key(arg[t])].present THEN "parse" ELSE "use"]
              /\ UNCHANGED <<cache, arg, calls, ret>>
\* code: parse fully, then store (one dict assignment)
Parse(t) == pc[t] = "parse" /\ ~StoreFirst /\ pc' = [pc EXCEPT ![t] = "store"] /\ UNCHANGED <<cache, arg, calls, ret>>
Store(t) == pc[t] = "store" /\ cache' = [cache EXCEPT ![Key(arg[t])] = [owner |-> arg[t], full |-> TRUE, present |-> TRUE]]
              /\ pc' = [pc EXCEPT ![t] = "use"] /\ UNCHANGED <<arg, calls, ret>>
\* hazard variant: publish an empty registry first, fill afterwards
StoreEmpty(t) == pc[t] = "parse" /\ StoreFirst /\ cache' = [cache EXCEPT ![Key(arg[t])] = [owner |-> arg[t], full |-> FALSE, present |-> TRUE]]
              /\ pc' = [pc EXCEPT ![t] = "fill"] /\ UNCHANGED <<arg, calls, ret>>
Fill(t) == pc[t] = "fill" /\ cache' = [cache EXCEPT ![Key(arg[t])] = [owner |-> arg[t], full |-> TRUE, present |-> TRUE]]
              /\ pc' = [pc EXCEPT ![t] = "use"] /\ UNCHANGED <<arg, calls, ret>>
Use(t) == pc[t] = "use" /\ LET c == cache[Key(arg[t])] IN
              ret' = [ret EXCEPT ![t] = IF c.full THEN File(c.owner) ELSE <<"partial", c.owner>>]
              /\ pc' = [pc EXCEPT ![t] = "done"] /\ UNCHANGED <<cache, arg, calls>>
Return(t) == pc[t] = "done" /\ pc' = [pc EXCEPT ![t] = "idle"] /\ UNCHANGED <<cache, arg, calls, ret>>
Next == \E t \in Threads : Enter(t) \/ Check(t) \/ Parse(t) \/ Store(t) \/ StoreEmpty(t) \/ Fill(t) \/ Use(t) \/ Return(t)
Spec == Init /\ [][Next]_vars
PureResults == \A t \in Threads : pc[t] = "done" => ret[t] = File(arg[t])
CacheMonotone == [][\A k \in Keys : cache[k].present => (cache'[k].present /\ cache'[k].owner = cache[k].owner)]_vars
====
