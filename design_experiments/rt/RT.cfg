SPECIFICATION Spec
CONSTANTS Threads = {t1,t2,t3}
 Names = {"be/banks","cz/banks","iban"}
 MaxCalls = 2
 StoreFirst = FALSE
 BaseKey = TRUE
INVARIANT PureResults
PROPERTY CacheMonotone
CHECK_DEADLOCK FALSE
