---- MODULE T ----
EXTENDS Sha256
VARIABLE i
Init == i = 0
Next == i < 200 /\ i' = i + 1 /\ Sha256(Sha256([k \in 1..21 |-> (i*7+k) % 256]))[1] >= 0
Spec == Init /\ [][Next]_i
ASSUME PrintT(Sha256(<<97,98,99>>))
====
