---- MODULE LuhnPA ----
EXTENDS Naturals, TLC
CONSTANT N
\* right-to-left reading: state = sum mod N, parity (0 = next char is undoubled)
Dbl(i) == LET d == 2*i IN (d \div N) + (d % N)
Step(s, p, c) == IF p = 0 THEN (s + c) % N ELSE (s + Dbl(c)) % N
VARIABLES s1, s2, par, phase, sw
vars == <<s1,s2,par,phase,sw>>
Init == s1 = 0 /\ s2 = 0 /\ par = 0 /\ phase = "same" /\ sw = <<0,0>>
Same == /\ phase \in {"same","after"}
        /\ \E c \in 0..N-1 : s1' = Step(s1,par,c) /\ s2' = Step(s2,par,c)
        /\ par' = 1-par /\ UNCHANGED <<phase, sw>>
Subst == /\ phase = "same"
         /\ \E a \in 0..N-1, b \in 0..N-1 : a # b /\ s1' = Step(s1,par,a) /\ s2' = Step(s2,par,b) /\ sw' = <<a,b>>
         /\ par' = 1-par /\ phase' = "after"
Swap == /\ phase = "same"
        /\ \E a \in 0..N-1, b \in 0..N-1 : a # b
             /\ s1' = Step(Step(s1,par,a),1-par,b)
             /\ s2' = Step(Step(s2,par,b),1-par,a)
             /\ sw' = <<a,b>>
        /\ par' = par /\ phase' = "swapped"
SameAfterSwap == /\ phase = "swapped"
        /\ \E c \in 0..N-1 : s1' = Step(s1,par,c) /\ s2' = Step(s2,par,c)
        /\ par' = 1-par /\ UNCHANGED <<phase, sw>>
Next == Same \/ Subst \/ Swap \/ SameAfterSwap
Spec == Init /\ [][Next]_vars
SubstDetected == phase = "after" => s1 # s2
SwapDetectedExcept == phase = "swapped" => ((s1 = s2) <=> ({sw[1],sw[2]} = {0, N-1}))
====
