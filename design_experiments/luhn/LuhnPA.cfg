SPECIFICATION Spec
CONSTANT N = 36
INVARIANT SubstDetected
INVARIANT SwapDetectedExcept
