---- MODULE V ----
EXTENDS Naturals, Sequences, TLC, Json, IOUtils, SequencesExt
Trace == ndJsonDeserialize(IOEnv.TRACE_FILE)
VARIABLES l, sess, rejected
VE == "stdnum.exceptions.ValidationError"
IsVE(r) == r.k = "exc" /\ \E i \in 1..Len(r.mro) : r.mro[i] = VE
\* named clauses; each is TRUE when not applicable
V1(e) == e.fn = "validate" => ((e.r.k = "ret" /\ e.r.t = "str") \/ IsVE(e.r))
V2(e) == e.fn = "is_valid" => (e.r.k = "ret" /\ e.r.t = "bool")
V3(e, s) == (e.fn = "is_valid" /\ s.tid = e.tid /\ e.r.k = "ret" /\ e.r.t = "bool") => (e.r.v = (s.vret))
Clauses(e, s) == [V1 |-> V1(e), V2 |-> V2(e), V3 |-> V3(e, s)]
Failing(e, s) == LET c == Clauses(e, s) IN SelectSeq(<<"V1","V2","V3">>, LAMBDA n : ~c[n])
Init == l = 1 /\ sess = [tid |-> 0, vret |-> FALSE] /\ rejected = <<>>
Step == /\ l <= Len(Trace)
        /\ LET e == Trace[l]
               bad == Failing(e, sess) IN
             /\ rejected' = IF bad = <<>> THEN rejected ELSE Append(rejected, <<e.tid, l, bad>>)
             /\ sess' = IF e.fn = "validate" THEN [tid |-> e.tid, vret |-> (e.r.k = "ret")] ELSE sess
        /\ l' = l + 1
Spec == Init /\ [][Step]_<<l, sess, rejected>>
Done == l > Len(Trace) => (\A i \in 1..Len(rejected) : PrintT(<<"REJECT", rejected[i]>>))
Accepted == TLCGet("stats").diameter - 1 = Len(Trace)
====
