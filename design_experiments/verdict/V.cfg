SPECIFICATION Spec
INVARIANT Done
POSTCONDITION Accepted
CHECK_DEADLOCK FALSE
