---- MODULE MCN ----
EXTENDS NumDB
A == {0,1}
Strs(k) == UNION {[1..j -> A] : j \in 1..k}
Ranges == {r \in Strs(2) \X Strs(2) : Len(r[1]) = Len(r[2]) /\ LexLeq(r[1], r[2])}
Leaf(r, p) == [len |-> Len(r[1]), low |-> r[1], high |-> r[2], props |-> p, kids |-> <<>>]
Props == { <<>>, << <<"a", 1>> >>, << <<"a", 2>> >> }
Leaves == {Leaf(r, p) : r \in Ranges, p \in Props}
KidLeaves == {e \in Leaves : e.len = 1}
VARIABLES db, q, phase
Init == db = <<>> /\ q = <<>> /\ phase = "build"
AddTop == phase = "build" /\ Len(db) < 2 /\ \E e \in Leaves : db' = Append(db, e) /\ UNCHANGED <<q, phase>>
AddKid == phase = "build" /\ Len(db) > 0 /\ Len(db[Len(db)].kids) < 1
          /\ \E e \in KidLeaves : db' = [db EXCEPT ![Len(db)].kids = Append(@, e)] /\ UNCHANGED <<q, phase>>
Query == phase = "build" /\ \E n \in Strs(3) : q' = n /\ phase' = "query" /\ UNCHANGED db
Next == AddTop \/ AddKid \/ Query
Spec == Init /\ [][Next]_<<db,q,phase>>
Lossless == phase = "query" => Concat(Find(q, db)) = q
NonEmptyParts == phase = "query" => \A i \in 1..Len(Find(q, db)) : Find(q,db)[i].part # <<>>
====
