---- MODULE NumDB ----
EXTENDS Naturals, Sequences, SequencesExt, FiniteSets, FiniteSetsExt, TLC
\* strings are sequences of naturals; entries: [len, low, high, props (seq of <<k,v>>), kids (seq of entries)]
RECURSIVE LexLeq(_,_)
LexLeq(a, b) == IF a = <<>> THEN TRUE ELSE IF b = <<>> THEN FALSE
                ELSE IF a[1] < b[1] THEN TRUE ELSE IF a[1] > b[1] THEN FALSE ELSE LexLeq(Tail(a), Tail(b))
Prefix(n, k) == SubSeq(n, 1, k)
Rest(n, k) == SubSeq(n, k+1, Len(n))
Matches(e, n) == Len(n) >= e.len /\ LexLeq(e.low, Prefix(n, e.len)) /\ LexLeq(Prefix(n, e.len), e.high)
\* merge props in file order: later overrides earlier
MergeProps(ps) == FoldLeft(LAMBDA acc, kv : [k \in DOMAIN acc \cup {kv[1]} |-> IF k = kv[1] THEN kv[2] ELSE acc[k]], <<>>, ps)
RECURSIVE Find(_,_)
Find(n, level) ==
  IF n = <<>> THEN <<>> ELSE
  LET idx == {i \in 1..Len(level) : Matches(level[i], n)} IN
  IF idx = {} THEN << [part |-> n, props |-> <<>>] >>
  ELSE LET k == Min({level[i].len : i \in idx})
           W == SelectSeq([i \in 1..Len(level) |-> i], LAMBDA i : i \in idx /\ level[i].len = k)
           allprops == FoldLeft(LAMBDA acc, i : acc \o level[i].props, <<>>, W)
           kids == FoldLeft(LAMBDA acc, i : acc \o level[i].kids, <<>>, W)
       IN << [part |-> Prefix(n,k), props |-> MergeProps(allprops)] >> \o Find(Rest(n,k), kids)
Concat(parts) == FoldLeft(LAMBDA acc, p : acc \o p.part, <<>>, parts)
====
