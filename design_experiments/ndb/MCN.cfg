SPECIFICATION Spec
INVARIANT Lossless
INVARIANT NonEmptyParts
CHECK_DEADLOCK FALSE
